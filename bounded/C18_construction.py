"""C18 bounded tier, part B: the reactor built from blueprints is the reactor the blueprints describe.

The SAME YAML text is read twice: by armi (Blueprints.load -> reactors.factory, the code under test) and by a plain
ruamel.yaml load interpreted by the few lines below (``Doc``), and the constructed model is compared with the plain
reading attribute by attribute.  Nothing of armi's blueprint, component or material code is re-implemented: the
expected values are the literal input numbers/strings, or the component *named* by a link.

Clauses (violation ids)
  core.location-design   a location named in a core / SFP grid (lattice map text or ``grid contents``) holds no assembly, or
                         one of another design than the specifier names
  core.extra-assembly    the system holds a different number of assemblies than the grid names (edge assemblies on the
                         120-degree line of a third core are documented as removed and not expected)
  core.location-design.cartesian-ragged-map / core.extra-assembly.cartesian-ragged-map / pin.locations.cartesian-ragged-map
                         the same clauses where the grid is a Cartesian TEXT map with holes or rows of unequal length
                         (narrowed top / bottom row, one wide middle row, random holes; trailing placeholders left off as
                         armi's own writer does).  Expected index of a token, from the text alone: (column, row from the
                         bottom), for a full core minus (nx // 2, ny // 2) with nx = the widest row (placeholders
                         counted), ny = the number of rows - see C18_asciimaps.py, grid.lattice-index
  assem.block-count / assem.block-order / assem.heights / assem.xstypes / assem.meshpoints / assem.flags
  comp.names             the block does not hold exactly the named components (merged ones excepted)
  comp.shape / comp.material / comp.temps / comp.mult / comp.dims / comp.link / comp.flags
  pin.locations          a component with ``latticeIDs`` does not sit on exactly the block-grid cells that carry these IDs
  comp.massfracs         mass fractions of a ``mass fractions`` custom isotopic do not read back (normalised; elements
                         compared as the sum over their isotopes) - only where no material modification applies
  comp.massfracs.order-dependent   two components with identical text (same component entry, same isotopic, same material
                         modifications reaching them) have different mass fractions / density - build-order dependence
                         through shared blueprint state
  isotopics.definition-mutated     after construction the blueprint's own custom-isotopic definition differs from the text or
                         from a never-constructed load of the same text
  comp.density           explicit ``density`` of a custom isotopic on a ``Custom`` material does not read back
  comp.ndens             ``number densities`` custom isotopic on a ``Custom`` material does not read back (Tinput == Thot)
  construct.nondeterministic   two constructions of the same text differ (own structural comparison, incl. number densities)
  construct.failed       a well-formed shipped / generated document is not constructed (exception)
  refuse.accepted-bad.<kind>   an inconsistent document that armi's code/tests say is refused was built without error

Not checked (would be a second implementation of armi's material model): composition after material modifications
(U235_wt_frac, ZR_wt_frac, TD_frac, ...), densities of library materials, hot dimensions, masses, element expansion
choices, number-fraction custom isotopics, custom density on non-Custom materials.
"""
import io
import json
import logging
import os
import random
import re
import sys
import tempfile
import time

sys.path.insert(0, os.path.dirname(os.path.abspath(__file__)))
from common import Bounded, armi_ready

_CWD0 = os.getcwd()
_TMP = tempfile.TemporaryDirectory(prefix="c18_")
os.chdir(_TMP.name)  # armi writes logs/ and case files relative to the cwd
armi_ready()
logging.disable(10**6)

import armi  # noqa: E402
import armi.materials  # noqa: E402
from armi import settings  # noqa: E402
from armi.nucDirectory import nuclideBases  # noqa: E402
from armi.reactor import blueprints, reactors  # noqa: E402
from armi.reactor.flags import Flags  # noqa: E402
from armi.reactor.grids import MultiIndexLocation  # noqa: E402
from ruamel.yaml import YAML  # noqa: E402

B = Bounded(
    rule="shipped blueprint documents of armi/tests plus seeded generated small documents (component shape class / material / "
    "Tinput / Thot / mult / dimension values / linked dimensions / custom isotopics; every third document: one mass-fraction isotopic shared by the UZr fuel of several blocks and "
    "assemblies with U235_wt_frac/ZR_wt_frac (by block or by component) reaching it in SOME blocks only, before and after unmodified uses; 1-3 block designs, 1-3 assembly designs of "
    "1-3 blocks; hex third / hex full flats-up / hex corners-up full / Cartesian full+quarter core grids given as lattice-map "
    "text or explicit grid contents; Cartesian text maps in 5 of 6 such documents with rows of unequal length / holes (top or bottom row narrowed, one wide middle "
    "row, random holes; trailing placeholders left off in 3 of 4) and at least two alternating designs; optional pin lattice (hex corners-up; Cartesian full text map "
    "with ragged rows in every second Cartesian-map document); optional SFP), each constructed twice and compared with a plain-YAML "
    "reading; plus crafted inconsistent documents; non-trivial = distinct (document, checked object)",
    bound="shipped: smallestTestReactor, refTestCartesian, armiRun(refSmallReactor+core/sfp grids), detailedAxialExpansion, c5g7 "
    "(quick and thorough), + anl-afci-177, zpprTest, godiva (thorough); generated: 150 documents (quick) / 1500 (thorough), core <= 3 rings "
    "/ 4x4 (ragged Cartesian text maps: 2x2..5x5, Cartesian pin maps 2x2..5x5); bad documents: 16 kinds x (1 quick / 5 thorough) base documents",
)
THOROUGH = B.thorough()
rng = B.rng
TESTS_DIR = os.path.join(os.path.dirname(armi.__file__), "tests")
REL = 1e-9

_V, _COUNT = {}, {}


def violation(vid, what, inp, size=0):
    _COUNT[vid] = _COUNT.get(vid, 0) + 1
    _V.setdefault(vid, []).append((size, _COUNT[vid], what, inp))
    if len(_V[vid]) > 200:
        _V[vid] = sorted(_V[vid], key=lambda t: (t[0], t[1]))[:20]


def check(cond, vid, what, inp, size=0):
    if not cond:
        violation(vid, what, inp, size)
    return bool(cond)


def flushViolations(perId=2):
    for vid in sorted(_V):
        for _s, _n, what, inp in sorted(_V[vid], key=lambda t: (t[0], t[1]))[:perId]:
            if isinstance(inp, dict) and "text" not in inp and str(inp.get("case", "")).startswith(("gen-", "bad-base")):
                inp = dict(inp, text=caseTexts.get(inp["case"]))  # replayable: --replay '{"text": ...}'
            B.violation(vid, what, inp)
    B.extra["violation_counts"] = dict(sorted(_COUNT.items()))


def close(a, b, rel=REL):
    try:
        a, b = float(a), float(b)
    except (TypeError, ValueError):
        return False
    return a == b or abs(a - b) <= rel * max(abs(a), abs(b))


# =============================================================================================== plain reading
INCLUDE = re.compile(r"^(\s*)!include\s+(\S+)\s*$")


def resolveIncludes(path):
    """Textual inclusion of ``!include file`` lines (own code; armi uses textProcessors.resolveMarkupInclusions)."""
    out = []
    here = os.path.dirname(path)
    for line in open(path).read().splitlines():
        m = INCLUDE.match(line)
        if m:
            for sub in resolveIncludes(os.path.join(here, m.group(2))).splitlines():
                out.append(m.group(1) + sub)
        else:
            out.append(line)
    return "\n".join(out) + "\n"


def hexRing(i, j):
    return max(abs(i), abs(j), abs(i + j))


def thirdBase(row):
    """Left-most cell of text line ``row`` (from the bottom) of a flats-up third-core map.

    Table of the docstring of AsciiMapHexThirdFlatsUp._getIJBaseByAsciiLine (rows 0..12), continued by its evident
    period: base(row + 3) = base(row) + (-1, +2) for row >= 1 ("3 rays going up at 120 degrees")."""
    table = [(0, 0), (1, 0), (0, 1), (1, 1)]
    if row < 4:
        return table[row]
    k, r = divmod(row - 1, 3)
    bi, bj = table[1 + r]
    return (bi - k, bj + 2 * k)


assert [thirdBase(r) for r in range(13)] == [(0, 0), (1, 0), (0, 1), (1, 1), (0, 2), (-1, 3), (0, 3), (-1, 4), (-2, 5), (-1, 5), (-2, 6), (-3, 7), (-2, 7)]

indexOracle = {}


def plainGridContents(g):
    """{(i,j): specifier} named by a grid section, from explicit ``grid contents`` or the ``lattice map`` text."""
    if g.get("grid contents"):
        return {(int(k[0]), int(k[1])): str(v) for k, v in g["grid contents"].items()}
    text = g.get("lattice map")
    if not text:
        return {}
    geom = str(g.get("geom", "hex")).strip().lower()
    sym = str(g.get("symmetry", "third periodic")).strip().lower()
    lines = [ln.split() for ln in text.strip().splitlines()]
    out = {}
    if geom == "cartesian":
        indexOracle["cartesian lattice map"] = "own: (column, row from bottom), centred by int(-n/2) when full"
        nx, ny = max(len(ln) for ln in lines), len(lines)
        ox, oy = (int(-nx / 2), int(-ny / 2)) if "full" in sym else (0, 0)
        for r, ln in enumerate(reversed(lines)):
            for c, t in enumerate(ln):
                out[(c + ox, r + oy)] = t
    elif geom == "hex_corners_up" and "full" in sym:
        indexOracle["hex corners-up full lattice map"] = "own: affine map through the documented corners"
        n = len(lines)
        R = (n - 1) // 2
        if n % 2 != 1 or max(len(ln) for ln in lines) != n:
            return None
        for a, ln in enumerate(lines):
            for c, t in enumerate(ln):
                out[(c - R, 2 * R - a - c)] = t
    elif geom in ("hex", "hex_corners_up") and "third" in sym:
        indexOracle["hex third lattice map"] = "own: documented base table (continued periodically), (+2,-1) per column"
        for r, ln in enumerate(reversed(lines)):
            bi, bj = thirdBase(r)
            for c, t in enumerate(ln):
                out[(bi + 2 * c, bj - c)] = t
    elif geom == "hex" and "full" in sym:
        indexOracle["hex flats-up full lattice map"] = "armi.utils.asciimaps reader (its text<->index relation is the subject of C18_asciimaps.py)"
        from armi.utils import asciimaps

        m = asciimaps.AsciiMapHexFullFlatsUp()
        m.readAscii(text)
        out = {tuple(k): v for k, v in m.items()}
    else:
        return None
    return {k: str(v) for k, v in out.items() if v != "-"}


def raggedTag(g):
    """'.cartesian-ragged-map' for a Cartesian grid section given as a text map with holes / rows of unequal length
    (circumstance named in violation ids), else ''."""
    if not g or g.get("grid contents") or str(g.get("geom", "hex")).strip().lower() != "cartesian":
        return ""
    rows = [ln.split() for ln in str(g.get("lattice map") or "").strip().splitlines()]
    return ".cartesian-ragged-map" if rows and (len({len(t) for t in rows}) > 1 or any("-" in t for t in rows)) else ""


class Doc:
    """The document as plain YAML, with the handful of conventions of the blueprint format."""

    def __init__(self, text):
        self.text = text
        self.d = YAML(typ="safe", pure=True).load(text)
        d = self.d
        self.blocks = {str(k): v for k, v in (d.get("blocks") or {}).items() if isinstance(v, dict)}
        self.blockNameById = {id(v): k for k, v in self.blocks.items()}
        self.assemblies = {str(k): v for k, v in (d.get("assemblies") or {}).items() if isinstance(v, dict) and "specifier" in v}
        self.bySpecifier = {}
        self.duplicateSpecifiers = set()
        for name, a in self.assemblies.items():
            s = str(a["specifier"])
            if s in self.bySpecifier:
                self.duplicateSpecifiers.add(s)
            self.bySpecifier[s] = name
        self.grids = {str(k): v for k, v in (d.get("grids") or {}).items() if isinstance(v, dict)}
        self.systems = {str(k): v for k, v in (d.get("systems") or {}).items() if isinstance(v, dict)}
        self.isotopics = {str(k): v for k, v in (d.get("custom isotopics") or {}).items() if isinstance(v, dict)}

    @staticmethod
    def components(blockDict):
        return {str(k): v for k, v in blockDict.items() if isinstance(v, dict) and "shape" in v}

    def blockName(self, blockDict):
        return self.blockNameById.get(id(blockDict), blockDict.get("name"))

    @staticmethod
    def activeMods(assemDict, k, compName):
        """Names of material modifications that apply to component compName of block k ('' and null = not applied)."""
        mods = assemDict.get("material modifications") or {}
        act = set()
        for name, lst in mods.items():
            if name == "by component":
                for cn, cm in (lst or {}).items():
                    if cn == compName:
                        act |= {n for n, l2 in cm.items() if k < len(l2) and l2[k] not in ("", None)}
            elif isinstance(lst, list) and k < len(lst) and lst[k] not in ("", None):
                act.add(name)
        return act


    @staticmethod
    def activeModValues(assemDict, k, compName):
        """{modification name: value} reaching component compName of block k (by-component overrides by-block)."""
        mods = assemDict.get("material modifications") or {}
        out = {}
        for name, lst in mods.items():
            if name != "by component" and isinstance(lst, list) and k < len(lst) and lst[k] not in ("", None):
                out[name] = lst[k]
        for cn, cm in (mods.get("by component") or {}).items():
            if cn == compName:
                for name, l2 in cm.items():
                    if k < len(l2) and l2[k] not in ("", None):
                        out[name] = l2[k]
        return out


LINK = re.compile(r"^\s*(.+?)\s*\.\s*(.+?)\s*$")  # the documented form "name.dimension"


def resolveLink(comps, compName, key, depth=0):
    """Follow links in the plain document to the literal number (None if it does not end in one)."""
    v = comps.get(compName, {}).get(key)
    if isinstance(v, str) and depth < 10:
        m = LINK.match(v)
        if m:
            return resolveLink(comps, m.group(1), m.group(2), depth + 1)
        return None
    return v


# =============================================================================================== comparison
def flagsOf(name, explicit):
    return Flags.fromString(explicit) if explicit is not None else Flags.fromStringIgnoreErrors(name)


def elementOf(nucName):
    nb = nuclideBases.byName.get(nucName)
    return nb.element.symbol if nb is not None else None


def massFractions(c):
    nd = c.getNumberDensities()
    m = {n: v * nuclideBases.byName[n].weight for n, v in nd.items() if v}
    tot = sum(m.values())
    return {n: v / tot for n, v in m.items()} if tot else {}


def checkComponent(doc, case, where, assemDict, k, bDict, b, cName, cDict, pinContents, pinTag=""):
    comps = Doc.components(bDict)
    c = next((x for x in b if x.name == cName), None)
    if c is None:
        return
    inp = dict(where, component=cName)
    B.case((case, where["system"], tuple(where["location"]), k, cName), None)
    shape = str(cDict["shape"]).strip().lower()
    check(type(c).__name__.lower() == shape, "comp.shape", "component class is not the specified shape", dict(inp, expected=shape, found=type(c).__name__))
    if cDict.get("material") is not None:
        mcls = getattr(armi.materials, str(cDict["material"]), None)
        check(type(c.material) is mcls if mcls is not None else type(c.material).__name__ == str(cDict["material"]), "comp.material", "material class is not the specified one", dict(inp, expected=cDict["material"], found=type(c.material).__name__))
    if cDict.get("Tinput") is not None and cDict.get("Thot") is not None:
        check(
            close(c.inputTemperatureInC, cDict["Tinput"]) and close(c.temperatureInC, cDict["Thot"]),
            "comp.temps",
            "input / hot temperature differ from Tinput / Thot",
            dict(inp, expected=[cDict["Tinput"], cDict["Thot"]], found=[c.inputTemperatureInC, c.temperatureInC]),
        )
    # flags
    if cDict.get("flags") is not None:
        check(c.p.flags == Flags.fromString(cDict["flags"]), "comp.flags", "explicit component flags not applied", dict(inp, expected=cDict["flags"], found=str(c.p.flags)))
    else:
        dep = Flags.DEPLETABLE
        check((c.p.flags | dep) == (Flags.fromStringIgnoreErrors(cName) | dep), "comp.flags", "flags are not those derived from the component name", dict(inp, found=str(c.p.flags)))
    isMergeTarget = any(str(o.get("mergeWith")) == cName for o in comps.values())
    # pin lattice
    nLattice = None
    if pinContents is not None and cDict.get("latticeIDs") is not None:
        ids = {str(x) for x in cDict["latticeIDs"]}
        expected = {ij for ij, spec in pinContents.items() if spec in ids}
        sl = c.spatialLocator
        found = {(int(loc.i), int(loc.j)) for loc in sl} if isinstance(sl, MultiIndexLocation) else set()  # else: not on the block grid
        if expected:
            nLattice = len(expected)
            check(found == expected, "pin.locations" + pinTag, "component is not on exactly the block-grid cells carrying its latticeIDs", dict(inp, missing=sorted(expected - found)[:5], extra=sorted(found - expected)[:5]))
    # multiplicity and dimensions
    for key in c.DIMENSION_NAMES:
        if key not in cDict or cDict[key] is None:
            if key == "mult" and nLattice is not None and not isMergeTarget:
                check(close(c.getDimension("mult", cold=True), nLattice), "comp.mult", "multiplicity is not the number of lattice positions", dict(inp, expected=nLattice, found=c.getDimension("mult", cold=True)))
            continue
        v = cDict[key]
        vid = "comp.mult" if key == "mult" else "comp.dims"
        if isinstance(v, str):
            m = LINK.match(v)
            if not m:
                continue
            tgtName, tgtKey = m.group(1), m.group(2)
            if comps.get(tgtName, {}).get("mergeWith"):
                skipped["links to merged components"] = skipped.get("links to merged components", 0) + 1
                continue
            raw = c.p[key]
            ok = hasattr(raw, "getLinkedComponent")
            if ok:
                tgt = raw.getLinkedComponent()
                ok = tgt.name == tgtName and raw[1] == tgtKey and tgt.parent is b
            check(ok, "comp.link", "dimension is not linked to the named component/dimension of the same block", dict(inp, key=key, expected=v, found=repr(raw)[:80]))
            num = resolveLink(comps, cName, key)
            tgtMerged = any(str(o.get("mergeWith")) == tgtName for o in comps.values())
            if isinstance(num, (int, float)) and not tgtMerged and not (key == "mult" and pinContents is not None):
                check(close(c.getDimension(key, cold=True), num), vid, "linked cold dimension does not resolve to the input number it is linked to", dict(inp, key=key, link=v, expected=num, found=c.getDimension(key, cold=True)))
        elif isinstance(v, (int, float)) and not isinstance(v, bool):
            if isMergeTarget and key != "mult":
                skipped["merge-target dims"] = skipped.get("merge-target dims", 0) + 1
                continue
            expected = v
            if key == "mult" and nLattice is not None and v in (1, 1.0):
                expected = nLattice
            check(close(c.getDimension(key, cold=True), expected), vid, "cold dimension differs from the input number", dict(inp, key=key, expected=expected, found=c.getDimension(key, cold=True)))
    # composition: only what the text states literally
    iso = cDict.get("isotopics")
    if iso is not None and iso in doc.isotopics and not isMergeTarget and cDict.get("material") is not None:
        # same text (component entry, isotopic, modifications reaching it) => same composition, whatever was built before
        key = json.dumps([case, cDict, sorted(Doc.activeModValues(assemDict, k, cName).items())], sort_keys=True, default=str)
        mfHere = massFractions(c)
        ref = sameTextRef.get(key)
        if ref is None:
            sameTextRef[key] = (mfHere, float(c.density()), dict(inp))
        else:
            mf0, rho0, where0 = ref
            diff = [[nn, mf0.get(nn, 0.0), mfHere.get(nn, 0.0)] for nn in sorted(set(mf0) | set(mfHere)) if not close(mf0.get(nn, 0.0), mfHere.get(nn, 0.0), 1e-10) and abs(mf0.get(nn, 0.0) - mfHere.get(nn, 0.0)) > 1e-14]
            check(
                not diff and close(rho0, c.density(), 1e-10),
                "comp.massfracs.order-dependent",
                "two components with identical text (same entry, same isotopic, same material modifications) have different compositions",
                dict(inp, isotopics=iso, other=where0, differing=diff[:5], densities=[rho0, float(c.density())]),
            )
            done["same-text pairs"] = done.get("same-text pairs", 0) + 1
    if iso is not None and iso in doc.isotopics and not Doc.activeMods(assemDict, k, cName) and not isMergeTarget:
        spec = doc.isotopics[iso]
        fmt = spec.get("input format")
        vals = {str(n): float(x) for n, x in spec.items() if n not in ("input format", "density")}
        if fmt == "mass fractions" and sum(vals.values()) > 0:
            tot = sum(vals.values())
            mf = massFractions(c)
            bad = []
            for n, x in vals.items():
                if n in nuclideBases.byName and not isinstance(nuclideBases.byName[n], (nuclideBases.NaturalNuclideBase,)):
                    found = mf.get(n, 0.0)
                else:  # element: sum over its isotopes (incl. an un-expanded elemental nuclide)
                    sym = n.capitalize() if len(n) <= 2 else n
                    found = sum(f for nn, f in mf.items() if (elementOf(nn) or "").upper() == sym.upper())
                if not close(found, x / tot, 1e-6) and abs(found - x / tot) > 1e-12:
                    bad.append([n, x / tot, found])
            # other isotopes of an element given isotope-wise, or nuclides never named, must be absent
            namedElems = {(elementOf(n) or n).upper() for n in vals}
            stray = sorted(nn for nn, f in mf.items() if f > 1e-12 and (elementOf(nn) or "").upper() not in namedElems)
            check(not bad and not stray, "comp.massfracs", "mass fractions of the custom isotopic do not read back on the component", dict(inp, isotopics=iso, bad=bad[:5], stray=stray[:5]))
            done["massfracs"] = done.get("massfracs", 0) + 1
        isCustom = str(cDict.get("material")) == "Custom"
        if isCustom and spec.get("density") is not None and fmt != "number densities":
            check(close(c.density(), spec["density"], 1e-9), "comp.density", "explicit density of the custom isotopic does not read back on the Custom-material component", dict(inp, isotopics=iso, expected=spec["density"], found=c.density()))
            done["density"] = done.get("density", 0) + 1
        if isCustom and fmt == "number densities" and close(cDict.get("Tinput"), cDict.get("Thot")):
            nd = c.getNumberDensities()
            bad = [[n, x, nd.get(n)] for n, x in vals.items() if n in nuclideBases.byName and not isinstance(nuclideBases.byName[n], nuclideBases.NaturalNuclideBase) and elementOf(n) and not close(nd.get(n, 0.0), x, 1e-9)]
            check(not bad, "comp.ndens", "number densities of the custom isotopic do not read back on the Custom-material component", dict(inp, isotopics=iso, bad=bad[:5]))
            done["ndens"] = done.get("ndens", 0) + 1


skipped = {}
done = {}
sameTextRef = {}


def checkAssembly(doc, case, a, designName, where, cs):
    ad = doc.assemblies[designName]
    inp = dict(where, assembly=designName)
    B.case((case, "assembly", designName, tuple(where.get("location", ()))), None)
    blocks = ad.get("blocks") or []
    if not check(len(a) == len(blocks), "assem.block-count", "number of blocks differs from the blocks list", dict(inp, expected=len(blocks), found=len(a))):
        return
    explicit = ad.get("flags")
    check(a.p.flags == flagsOf(designName, explicit), "assem.flags", "assembly flags are not those of the explicit flags / the design name", dict(inp, found=str(a.p.flags)))
    names = [doc.blockName(bd) for bd in blocks]
    found = [b.getType() for b in a]
    if all(n is not None for n in names):
        check(found == names, "assem.block-order", "block types bottom-to-top differ from the blocks list", dict(inp, expected=names, found=found))
    heights = ad.get("height") or []
    xs = ad.get("xs types") or []
    mesh = ad.get("axial mesh points") or []
    z = 0.0
    for k, (bd, b) in enumerate(zip(blocks, a)):
        w = dict(inp, block=k, blockName=names[k])
        check(int(b.spatialLocator.k) == k, "assem.block-order", "block is not at its axial index", dict(w, found=int(b.spatialLocator.k)))
        if cs["inputHeightsConsideredHot"]:
            check(close(b.getHeight(), heights[k]) and close(b.p.zbottom, z, 1e-9) and close(b.p.ztop, z + heights[k], 1e-9), "assem.heights", "block height / elevations differ from the height list", dict(w, expected=[heights[k], z, z + heights[k]], found=[b.getHeight(), b.p.zbottom, b.p.ztop]))
        else:
            skipped["heights (input cold, expanded by armi)"] = skipped.get("heights (input cold, expanded by armi)", 0) + 1
        z += heights[k]
        check(b.p.xsType == str(xs[k]), "assem.xstypes", "cross-section type differs from the xs types list", dict(w, expected=str(xs[k]), found=b.p.xsType))
        check(b.p.axMesh == int(mesh[k]) * cs["axialMeshRefinementFactor"], "assem.meshpoints", "axial mesh points differ", dict(w, expected=mesh[k], found=b.p.axMesh))
        check(b.p.flags == flagsOf(names[k] or "", bd.get("flags")), "assem.flags", "block flags are not those of the explicit flags / the block name", dict(w, found=str(b.p.flags), explicit=bd.get("flags")))
        comps = Doc.components(bd)
        if any(str(c["shape"]).strip().lower() == "group" for c in comps.values()):
            skipped["blocks with component groups"] = skipped.get("blocks with component groups", 0) + 1
            continue
        expectedNames = sorted(n for n, c in comps.items() if not c.get("mergeWith"))
        check(sorted(c.name for c in b) == expectedNames, "comp.names", "block does not hold exactly the named components", dict(w, expected=expectedNames, found=sorted(c.name for c in b)))
        pinContents, pinTag = None, ""
        if bd.get("grid name") is not None:
            g = doc.grids.get(str(bd["grid name"]))
            pinContents = plainGridContents(g) if g else None
            pinTag = raggedTag(g)
            check(b.spatialGrid is not None, "pin.locations", "block with a grid name has no spatial grid", w)
        for cName, cDict in comps.items():
            if cDict.get("mergeWith"):
                skipped["merged components"] = skipped.get("merged components", 0) + 1
                continue
            checkComponent(doc, case, dict(w), ad, k, bd, b, cName, cDict, pinContents, pinTag)


def systemsOf(r):
    return {c.name: c for c in r}


def checkReactor(doc, r, case, cs):
    systems = systemsOf(r)
    for sysName, sd in doc.systems.items():
        g = doc.grids.get(str(sd.get("grid name")))
        if g is None:
            continue
        contents = plainGridContents(g)
        if contents is None:
            skipped["grids without an index oracle"] = skipped.get("grids without an index oracle", 0) + 1
            continue
        container = systems.get(sysName)
        if not check(container is not None, "core.location-design", "system named in the document is not in the reactor", {"case": case, "system": sysName}):
            continue
        byLoc = {}
        for a_ in container:
            ij_ = tuple(int(x) for x in a_.spatialLocator.getCompleteIndices()[:2])
            check(ij_ not in byLoc, "core.extra-assembly", "two assemblies at one location", {"case": case, "system": sysName, "location": list(ij_)})
            byLoc[ij_] = a_
        isThird = "third" in str(g.get("symmetry", "third periodic")).lower() and str(g.get("geom", "hex")).lower().startswith("hex")
        ragged = raggedTag(g)  # circumstance named in the violation id
        nExpected = 0
        for (i, j), spec in sorted(contents.items()):
            where = {"case": case, "system": sysName, "location": [i, j], "specifier": spec}
            if spec in doc.duplicateSpecifiers:
                skipped["locations with an ambiguous (duplicate) specifier"] = skipped.get("locations with an ambiguous (duplicate) specifier", 0) + 1
                continue
            if isThird and (i, j) != (0, 0) and (2 * i + j <= 0 or i + 2 * j < 0):
                # outside the represented third, or on its 120-degree edge: armi documents that these are dropped
                skipped["third-core cells outside the domain / edge"] = skipped.get("third-core cells outside the domain / edge", 0) + 1
                continue
            nExpected += 1
            a = byLoc.get((i, j))
            design = doc.bySpecifier.get(spec)
            B.case((case, sysName, i, j), {"case": case, "system": sysName, "location": [i, j], "specifier": spec})
            if not check(a is not None and design is not None and a.getType() == design, "core.location-design" + ragged, "location named in the grid does not hold an assembly of the specified design", dict(where, expected=design, found=(a.getType() if a is not None else None))):
                continue
            checkAssembly(doc, case, a, design, where, cs)
        if not doc.duplicateSpecifiers:
            check(len(container) == nExpected, "core.extra-assembly" + ragged, "number of assemblies differs from the number of named locations", {"case": case, "system": sysName, "expected": nExpected, "found": len(container)})


def isotopicDefinition(ci):
    return {"massFracs": {str(n): float(v) for n, v in ci.massFracs.items()}, "entries": {str(n): float(v) for n, v in ci.items()}, "density": (None if ci.density is None else float(ci.density)), "format": ci.inputFormat}


def checkIsotopicDefinitions(doc, r, case, text):
    """After construction, bp.customIsotopics must still say what the text says (and what a never-constructed load says)."""
    bp = r.blueprints
    if not doc.isotopics or bp.customIsotopics is None:
        return
    try:
        fresh = blueprints.Blueprints.load(text).customIsotopics
    except Exception:
        fresh = None
    for name, spec in doc.isotopics.items():
        if name not in bp.customIsotopics:
            continue
        B.case((case, "isotopic definition", name), None)
        ci = bp.customIsotopics[name]
        inp = {"case": case, "isotopics": name}
        vals = {str(n): float(x) for n, x in spec.items() if n not in ("input format", "density")}
        now = isotopicDefinition(ci)
        bad = [[n, x, now["entries"].get(n)] for n, x in vals.items() if now["entries"].get(n) != x]
        if spec.get("input format") == "mass fractions":
            for n, x in vals.items():
                if n in now["massFracs"]:
                    found = now["massFracs"][n]
                else:  # an element that armi expanded when READING the section: compare the sum over its isotopes
                    found = sum(v for nn, v in now["massFracs"].items() if (elementOf(nn) or "").upper() == n.upper())
                if not close(found, x, 1e-9):
                    bad.append([n, x, found])
            named = {(elementOf(n) or n).upper() for n in vals}
            bad += [[nn, 0.0, v] for nn, v in now["massFracs"].items() if v and (elementOf(nn) or nn).upper() not in named]
        if spec.get("density") is not None and spec.get("input format") != "number densities":
            if now["density"] != float(spec["density"]):
                bad.append(["density", spec["density"], now["density"]])
        check(not bad, "isotopics.definition-mutated", "after construction the blueprint's custom isotopic no longer equals the text (name, text, found)", dict(inp, bad=bad[:6]))
        if fresh is not None and name in fresh:
            was = isotopicDefinition(fresh[name])
            d = [[k_, was[k_], now[k_]] for k_ in was if was[k_] != now[k_]]
            check(not d, "isotopics.definition-mutated", "construction changed the blueprint's custom isotopic (as loaded -> after construction)", dict(inp, changed=json.loads(json.dumps(d, default=str))[:3]))
        done["isotopic definitions"] = done.get("isotopic definitions", 0) + 1


def signature(r):
    """Own structural value of a reactor (no names/serial numbers, which count globally)."""
    out = []
    for sysName, s in sorted(systemsOf(r).items()):
        for a in s:
            loc = tuple(int(x) for x in a.spatialLocator.getCompleteIndices())
            blocks = []
            for b in a:
                comps = []
                for c in sorted(b, key=lambda c: c.name):
                    dims = tuple((k, None if c.p[k] is None else (repr(c.p[k][1]) + "@" + c.p[k].getLinkedComponent().name if hasattr(c.p[k], "getLinkedComponent") else float(c.p[k]))) for k in c.DIMENSION_NAMES)
                    nd = tuple(sorted((n, float(v)) for n, v in c.getNumberDensities().items()))
                    comps.append((c.name, type(c).__name__, type(c.material).__name__, float(c.inputTemperatureInC), float(c.temperatureInC), int(c.p.flags), dims, nd))
                blocks.append((b.getType(), float(b.getHeight()), b.p.xsType, int(b.p.flags), int(b.p.axMesh), tuple(comps)))
            out.append((sysName, loc, a.getType(), int(a.p.flags), tuple(blocks)))
    return sorted(out, key=lambda t: (t[0], t[1]))


def firstDifference(s1, s2, path=()):
    if type(s1) is not type(s2):
        return [list(path), repr(s1)[:80], repr(s2)[:80]]
    if isinstance(s1, (list, tuple)):
        if len(s1) != len(s2):
            return [list(path), "len %d" % len(s1), "len %d" % len(s2)]
        for n, (x, y) in enumerate(zip(s1, s2)):
            d = firstDifference(x, y, path + (n,))
            if d:
                return d
        return None
    if isinstance(s1, float):
        return None if (s1 == s2 or abs(s1 - s2) <= 1e-13 * max(abs(s1), abs(s2))) else [list(path), s1, s2]
    return None if s1 == s2 else [list(path), repr(s1)[:80], repr(s2)[:80]]


# =============================================================================================== construction (code under test)
def baseSettings(extra=None):
    cs = settings.Settings()
    new = {"inputHeightsConsideredHot": True}
    new.update(extra or {})
    return cs.modified(newSettings=new)


def constructFromText(text, cs):
    bp = blueprints.Blueprints.load(text)
    return reactors.factory(cs, bp)


def constructFromSettingsFile(path, heightsHot=True):
    cs = settings.Settings(fName=path)
    if heightsHot is not None:
        cs = cs.modified(newSettings={"inputHeightsConsideredHot": heightsHot})
    bp = blueprints.loadFromCs(cs)
    return cs, reactors.factory(cs, bp)


def runCase(case, text, build, sample=None):
    """text: the (include-resolved) YAML; build(): -> (cs, reactor) with armi.  Returns True if constructed."""
    t0 = time.time()
    if case.startswith(("gen-", "bad-base")):
        caseTexts[case] = text
    try:
        doc = Doc(text)
    except Exception as e:
        B.extra.setdefault("plain_yaml_unreadable", []).append("%s: %r" % (case, e))
        return False
    B.case((case, "document"), sample or {"case": case})
    try:
        cs, r1 = build()
        cs, r2 = build()
    except Exception as e:
        violation("construct.failed", "a well-formed document was not constructed: %r" % e, {"case": case, "text": text if len(text) < 6000 else text[:6000] + "..."}, len(text))
        return False
    checkReactor(doc, r1, case, cs)
    checkIsotopicDefinitions(doc, r1, case, text)
    d = firstDifference(signature(r1), signature(r2))
    check(d is None, "construct.nondeterministic", "two constructions of the same document differ (path, first, second)", {"case": case, "difference": d, "text": text if len(text) < 6000 else None}, len(text))
    timings[case] = round(time.time() - t0, 2)
    return True


timings = {}
caseTexts = {}
raggedKinds = {}

# =============================================================================================== generated documents
HEX_PITCH = 16.75
CART_PITCH = 10.0
# materials whose nuclides are all covered by armi's default nuclide flags (no `nuclide flags` section is generated)
SOLIDS = ["HT9", "Zr", "Graphite", "Uranium"]
FLUIDS = ["Sodium", "Void", "Sodium"]  # third slot was Potassium while that material had no composition (fixed defect F183): K is not in the default nuclide flags


def f4(x):
    return float("%.4f" % x)


def genBlock(rng, kind, cart, name, features):
    """Return (lines of YAML for one block design under `blocks:`, facts).  kind: pin | plate | empty."""
    T0 = rng.choice([20.0, 25.0, 300.0])
    Th = rng.choice([T0, 450.0, 600.0])
    L = []
    anchor = "block_" + re.sub(r"\W", "_", name)
    L.append("  %s: &%s" % (name, anchor))
    if features.get("blockFlags"):
        L.append("    flags: %s" % features["blockFlags"])
    usePins = features.get("pinGrid")
    if usePins:
        L.append("    grid name: pins")

    def comp(cname, shape, material, tin, thot, dims, isotopics=None, flags=None, lattice=None):
        L.append("    %s:" % cname)
        L.append("      shape: %s" % shape)
        L.append("      material: %s" % material)
        L.append("      Tinput: %r" % tin)
        L.append("      Thot: %r" % thot)
        if isotopics:
            L.append("      isotopics: %s" % isotopics)
        if flags:
            L.append("      flags: %s" % flags)
        for k, v in dims:
            L.append("      %s: %s" % (k, v if isinstance(v, str) else repr(v)))
        if lattice:
            L.append("      latticeIDs: [%s]" % ", ".join(lattice))

    inner = 9.0 if cart else 16.0
    mid = 9.5 if cart else f4(rng.uniform(16.2, 16.6))
    pitch = CART_PITCH if cart else HEX_PITCH
    if kind == "pin":
        pinName = features.get("pinName", "fuel")
        mat = features.get("pinMaterial", "UZr")
        mult = float(rng.choice([1, 7, 19, 37]))
        od = f4(rng.uniform(0.5, 0.85))
        cid = f4(od + rng.uniform(0.01, 0.1))
        cod = f4(cid + rng.uniform(0.05, 0.15))
        linkMult = rng.random() < 0.7
        linkGap = rng.random() < 0.7
        pinShape = rng.choice(["Circle", "Circle", "Hexagon"]) if not usePins else "Circle"
        multDims = [] if usePins else [("mult", mult)]
        lat = ["F"] if usePins else None
        if pinShape == "Circle":
            comp(pinName, "Circle", mat, T0, Th, [("id", 0.0), ("od", od)] + multDims, isotopics=features.get("isotopics"), flags=features.get("pinFlags"), lattice=lat)
            comp("bond", "Circle", rng.choice(FLUIDS), 450.0, 450.0, [("id", "%s.od" % pinName if linkGap else od), ("od", "clad.id" if linkGap else cid)] + ([] if usePins else [("mult", "%s.mult" % pinName if linkMult else mult)]), lattice=lat)
            comp("clad", "Circle", rng.choice(SOLIDS), T0, rng.choice([T0, 450.0]), [("id", cid), ("od", cod)] + ([] if usePins else [("mult", "%s.mult" % pinName if linkMult else mult)]), lattice=lat)
            if usePins:
                comp("guide", "Circle", "HT9", 450.0, 450.0, [("id", f4(rng.uniform(0.3, 0.6))), ("od", f4(rng.uniform(0.7, 1.0)))], lattice=["G", "H"] if rng.random() < 0.5 else ["G"])
        else:
            hop = f4(rng.uniform(0.5, 0.9))
            comp(pinName, "Hexagon", mat, T0, Th, [("ip", 0.0), ("op", hop), ("mult", mult)], isotopics=features.get("isotopics"), flags=features.get("pinFlags"))
        if not usePins and pinShape == "Circle" and rng.random() < 0.4:
            comp("wire", "Helix", "HT9", T0, 450.0, [("axialPitch", f4(rng.uniform(20, 40))), ("helixDiameter", f4(cod + 0.1)), ("id", 0.0), ("od", 0.1), ("mult", "%s.mult" % pinName)])
    elif kind == "plate":
        comp("grid", "Rectangle" if cart else "Hexagon", rng.choice(SOLIDS), 450.0, 450.0, ([("lengthInner", 0.0), ("lengthOuter", f4(rng.uniform(5, 8))), ("widthInner", 0.0), ("widthOuter", f4(rng.uniform(5, 8))), ("mult", 1.0)] if cart else [("ip", f4(rng.uniform(0, 10))), ("op", f4(rng.uniform(12, 15.5))), ("mult", 1.0)]))
    comp("coolant", "DerivedShape", "Sodium", 450.0, 450.0, [])
    if cart:
        sq = rng.random() < 0.4
        if sq:
            comp("duct", "Square", "HT9", T0, 450.0, [("widthInner", inner), ("widthOuter", mid), ("mult", 1.0)])
            comp("intercoolant", "Square", "Sodium", 450.0, 450.0, [("widthInner", "duct.widthOuter" if rng.random() < 0.6 else mid), ("widthOuter", pitch), ("mult", 1.0)])
        else:
            comp("duct", "Rectangle", "HT9", T0, 450.0, [("lengthInner", inner), ("lengthOuter", mid), ("widthInner", inner), ("widthOuter", mid), ("mult", 1.0)])
            lk = rng.random() < 0.6
            comp("intercoolant", "Rectangle", "Sodium", 450.0, 450.0, [("lengthInner", "duct.lengthOuter" if lk else mid), ("lengthOuter", pitch), ("widthInner", "duct.widthOuter" if lk else mid), ("widthOuter", pitch), ("mult", 1.0)])
    else:
        comp("duct", "Hexagon", rng.choice(SOLIDS), T0, 450.0, [("ip", inner), ("op", mid), ("mult", 1.0)])
        comp("intercoolant", "Hexagon", "Sodium", 450.0, 450.0, [("ip", "duct.op" if rng.random() < 0.7 else mid), ("op", pitch), ("mult", 1.0)])
    return L, anchor


def fullHexCells(R):
    return [(i, j) for i in range(-R, R + 1) for j in range(-R, R + 1) if hexRing(i, j) < R]


def thirdHexCells(R):
    return [(i, j) for (i, j) in fullHexCells(R) if (i, j) == (0, 0) or (2 * i + j > 0 and i + 2 * j >= 0)]


def thirdMapText(cells):
    """Lattice-map text of a third-core flats-up map, from the documented base table (own layout code)."""
    pos = {}
    for (i, j), spec in cells.items():
        for r in range(0, 40):
            bi, bj = thirdBase(r)
            if (i - bi) % 2 == 0 and (i - bi) // 2 >= 0 and bj - (i - bi) // 2 == j:
                pos[(r, (i - bi) // 2)] = spec
                break
        else:
            raise ValueError("cell %s not representable" % ((i, j),))
    nLines = max(r for r, _ in pos) + 1
    lines = []
    for r in range(nLines):
        n = max([c for (rr, c) in pos if rr == r], default=-1) + 1
        lines.append(" ".join(pos.get((r, c), "-") for c in range(n)) or "-")
    return list(reversed(lines))


def tipsMapText(cells, R):
    lines = []
    for a in range(2 * R - 1):
        toks = []
        for c in range(2 * R - 1):
            ij = (c - (R - 1), 2 * (R - 1) - a - c)
            if hexRing(*ij) < R:
                toks.append(cells.get(ij, "-"))
            elif c < R:  # leading placeholder (upper-left corner region)
                toks.append("-")
        lines.append(" " * a + " ".join(toks))
    return lines


def genDocument(rng, n):
    """One small, well-formed blueprint document as YAML text; returns (text, description)."""
    gridKind = ["hex third map", "hex third contents", "hex full contents", "hex tips map", "hex tips contents", "cart full map", "cart quarter map", "cart full contents", "hex full map"][n % 9]
    cart = gridKind.startswith("cart")
    desc = {"grid": gridKind}
    L = []
    isoName = None
    # "shared" family: ONE mass-fraction isotopic used by the UZr fuel of several blocks/assemblies, with material
    # modifications reaching it in SOME blocks only, before and after blocks that use it unmodified (build order)
    shared = n % 3 == 1
    isoKind = rng.choice(["mass", "massdens"]) if shared else rng.choice([None, None, "mass", "massdens", "ndens"])
    if isoKind:
        isoName = "ISO1"
        L.append("custom isotopics:")
        L.append("  ISO1:")
        if isoKind in ("mass", "massdens"):
            L.append("    input format: mass fractions")
            w = [rng.uniform(0.05, 1.0) for _ in range(4)]
            tot = sum(w)
            w = [float("%.6f" % (x / tot)) for x in w]
            w[-1] = float("%.6f" % (1.0 - sum(w[:-1])))
            if isoKind == "massdens":
                L.append("    density: %r" % f4(rng.uniform(2.0, 19.0)))
            nucs = (["U235", "U238", "ZR", rng.choice(["PU239", "FE", "C", "U234"])] if shared else rng.sample(["U235", "U238", "PU239", "ZR", "FE", "C", "NA", "CR"], 4))
            for nuc, x in zip(nucs, w):
                L.append("    %s: %r" % (nuc, x))
        else:
            L.append("    input format: number densities")
            for nuc in rng.sample(["U234", "U235", "U236", "U238", "PU239", "PU240", "PU241", "AM241"], 3):
                L.append("    %s: %r" % (nuc, float("%.6e" % rng.uniform(1e-5, 3e-2))))
    desc["isotopics"] = isoKind
    desc["sharedIsotopicWithPartialMods"] = shared
    usePinGrid = (not cart) and rng.random() < 0.25
    # Cartesian pin lattices (text maps with rows of unequal length): every second Cartesian-map document, own generator
    cartPins = random.Random("cartpins-%d-%d" % (B.seed, n)) if (cart and "map" in gridKind and (n // 9) % 2 == 0) else None
    usePinGrid = usePinGrid or cartPins is not None
    desc["pinGrid"] = usePinGrid
    # block designs
    nBlockDesigns = rng.randint(1, 3)
    pool = [("fuel", "pin"), ("grid plate", "plate"), ("plenum", "empty"), ("axial shield", "pin"), ("duct", "empty"), ("control", "pin"), ("feed fuel", "pin")]
    rng.shuffle(pool)
    designs = pool[:nBlockDesigns]
    if not any(k == "pin" for _, k in designs):
        designs[0] = ("fuel", "pin")
    if shared:  # one or two fuel designs on the shared isotopic, plus whatever else was drawn
        designs = [d for d in designs if d[0] not in ("fuel", "feed fuel")][:1] + [("fuel", "pin")] + ([("feed fuel", "pin")] if rng.random() < 0.5 else [])
        rng.shuffle(designs)
    L.append("blocks:")
    anchors = []
    fuelLike = []
    xFuel = []
    for name, kind in designs:
        feats = {}
        if kind == "pin":
            feats["pinName"] = {"fuel": "fuel", "feed fuel": "fuel", "axial shield": "shield", "control": "control"}[name]
            if shared and name in ("fuel", "feed fuel"):
                feats["isotopics"] = isoName
                feats["pinMaterial"] = "UZr"
            elif isoKind and (name in ("fuel", "feed fuel") or rng.random() < 0.5):
                feats["isotopics"] = isoName
                feats["pinMaterial"] = "Custom" if (isoKind != "mass" or rng.random() < 0.5) else rng.choice(["UZr", "HT9"])
            else:
                feats["pinMaterial"] = {"fuel": rng.choice(["UZr", "Uranium"]), "feed fuel": "UZr", "axial shield": rng.choice(SOLIDS), "control": "B4C"}[name]
            if rng.random() < 0.2:
                feats["pinFlags"] = rng.choice(["fuel depletable", "shield", "control", "annular fuel depletable"])
            if usePinGrid:
                feats["pinGrid"] = True
        if rng.random() < 0.2:
            feats["blockFlags"] = rng.choice(["fuel", "fuel test", "shield axial", "plenum", "control moveable"])
        bl, anchor = genBlock(rng, kind, cart, name, feats)
        L.extend(bl)
        anchors.append((name, anchor, kind, feats))
        if kind == "pin" and feats.get("pinMaterial") == "UZr" and not feats.get("isotopics"):
            fuelLike.append(anchor)
        if shared and kind == "pin" and name in ("fuel", "feed fuel"):  # component named `fuel`, UZr on the shared isotopic
            xFuel.append(anchor)
    # assemblies
    nAssem = rng.randint(1, 3)
    specs = rng.sample(["IC", "OC", "SH", "PC", "MC", "A1", "f2"], nAssem)
    aNames = rng.sample(["igniter fuel", "feed fuel", "radial shield", "primary control", "middle fuel", "lta fuel"], nAssem)
    nb = rng.randint(2, 3) if shared else rng.randint(1, 3)
    if shared:
        nAssem = max(nAssem, 2)
        specs = rng.sample(["IC", "OC", "SH", "PC", "MC", "A1", "f2"], nAssem)
        aNames = rng.sample(["igniter fuel", "feed fuel", "radial shield", "primary control", "middle fuel", "lta fuel"], nAssem)
    forced = rng.randrange(nAssem) if shared else -1  # this assembly certainly mixes modified and unmodified uses
    sameHeights = [f4(rng.uniform(5.0, 60.0)) for _ in range(nb)]
    L.append("assemblies:")
    for ai, (an, sp) in enumerate(zip(aNames, specs)):
        chosen = [rng.choice(anchors) for _ in range(nb)]
        if shared:
            xa = [a_ for a_ in anchors if a_[1] in xFuel]
            chosen = [rng.choice(xa) if (ai == forced or rng.random() < 0.6) else c_ for c_ in chosen]
        L.append("  %s:" % an)
        if rng.random() < 0.25:
            L.append("    flags: %s" % rng.choice(["fuel", "igniter fuel", "radial shield", "control primary"]))
        L.append("    specifier: %s" % sp)
        L.append("    blocks: [%s]" % ", ".join("*" + c[1] for c in chosen))
        L.append("    height: [%s]" % ", ".join(repr(h) for h in sameHeights))
        L.append("    axial mesh points: [%s]" % ", ".join(str(rng.randint(1, 3)) for _ in range(nb)))
        L.append("    xs types: [%s]" % ", ".join(rng.choice(["A", "B", "C", "AB"]) for _ in range(nb)))
        if shared and any(c[1] in xFuel for c in chosen) and (ai == forced or rng.random() < 0.5):
            isX = [c[1] in xFuel for c in chosen]
            while True:  # modified in SOME fuel blocks only; in the forced assembly at least one modified and one not
                on = [x and rng.random() < 0.5 for x in isX]
                if ai != forced or (any(on) and any(x and not o for x, o in zip(isX, on))):
                    break
            byComp = rng.random() < 0.3
            L.append("    material modifications:")
            ind = "      "
            if byComp:
                L.append("      by component:")
                L.append("        fuel:")
                ind = "          "
            L.append(ind + "U235_wt_frac: [%s]" % ", ".join((repr(float("%.3f" % rng.uniform(0.05, 0.3))) if o else "''") for o in on))
            if rng.random() < 0.6:
                L.append(ind + "ZR_wt_frac: [%s]" % ", ".join((repr(float("%.3f" % rng.uniform(0.05, 0.12))) if (o and rng.random() < 0.8) else "''") for o in on))
        elif any(c[1] in fuelLike for c in chosen) and rng.random() < 0.5:
            L.append("    material modifications:")
            L.append("      U235_wt_frac: [%s]" % ", ".join((repr(float("%.3f" % rng.uniform(0.05, 0.3))) if c[1] in fuelLike else "''") for c in chosen))
            L.append("      ZR_wt_frac: [%s]" % ", ".join((repr(float("%.3f" % rng.uniform(0.05, 0.12))) if c[1] in fuelLike else "''") for c in chosen))
    # core grid
    R = rng.randint(1, 3)
    ragged, hr = "no", None
    if gridKind.startswith("hex third"):
        cells, geom, sym = thirdHexCells(R), "hex", "third periodic"
    elif gridKind.startswith("hex full"):
        cells, geom, sym = fullHexCells(R if "map" not in gridKind else min(R, 2)), "hex", "full"
    elif gridKind.startswith("hex tips"):
        cells, geom, sym = fullHexCells(R), "hex_corners_up", "full"
    else:
        nx, ny = rng.randint(1, 4), rng.randint(1, 4)
        if "map" in gridKind:
            # Cartesian text maps: five of six documents get rows of unequal length / holes (see the drawing below).  Own
            # generator (hr) so that the documents of the other families do not change; these maps are 2..5 wide and high.
            hr = random.Random("ragged-%d-%d" % (B.seed, n))
            ragged = ["narrow-top", "random-holes", "no", "narrow-bottom", "wide-middle", "narrow-top"][(n // 9) % 6]
            if ragged != "no":
                nMain = nx * ny  # draws of the shared generator that the plain rectangle would have used
                nx, ny = hr.randint(2, 5), hr.randint(3 if ragged == "wide-middle" else 2, 5)
        if "quarter" in gridKind:
            cells, geom, sym = [(i, j) for i in range(nx) for j in range(ny)], "cartesian", "quarter reflective"
        else:
            cells, geom, sym = [(i + int(-nx / 2), j + int(-ny / 2)) for i in range(nx) for j in range(ny)], "cartesian", "full"
    if ragged == "no":
        contents = {c: rng.choice(specs) for c in cells}
    else:  # keep the shared generator in step; at least two designs alternate so that a shifted map is visible
        for _ in range(nMain):
            rng.choice(specs)
        off = hr.randrange(2)
        contents = {c: (specs[(k_ + off) % len(specs)] if hr.random() < 0.7 else hr.choice(specs)) for k_, c in enumerate(sorted(cells))}
    if "contents" in gridKind and len(contents) > 2 and rng.random() < 0.5:  # holes (explicit lists only: any pattern is expressible)
        for c in rng.sample(sorted(contents), rng.randint(1, max(1, len(contents) // 3))):
            if c != (0, 0):
                del contents[c]
    L.append("systems:")
    L.append("  core:")
    L.append("    grid name: core")
    L.append("    origin: {x: 0.0, y: 0.0, z: 0.0}")
    useSfp = rng.random() < 0.3
    if useSfp:
        L.append("  Spent Fuel Pool:")
        L.append("    type: sfp")
        L.append("    grid name: sfp")
        L.append("    origin: {x: 5000.0, y: 5000.0, z: 0.0}")
    L.append("grids:")
    L.append("  core:")
    L.append("    geom: %s" % geom)
    L.append("    symmetry: %s" % sym)
    if cart:
        L.append("    lattice pitch: {x: %r, y: %r}" % (CART_PITCH, CART_PITCH))
    if "contents" in gridKind:
        L.append("    grid contents:")
        for (i, j), s in sorted(contents.items()):
            L.append("      [%d, %d]: %s" % (i, j, s))
    else:
        L.append("    lattice map: |")
        if gridKind == "hex third map":
            ml = thirdMapText(contents)
        elif gridKind == "hex tips map":
            ml = tipsMapText(contents, R)
        elif gridKind == "hex full map":  # layout by armi's own writer (declared reader-dependent), only full small hexagons
            from armi.utils import asciimaps

            m = asciimaps.AsciiMapHexFullFlatsUp()
            m.asciiLabelByIndices = dict(contents)
            m.gridContentsToAscii()
            ml = str(m).rstrip("\n").splitlines()
        else:
            # Cartesian text map (own drawing: one row per j, top row first, one token per i, '-' = hole).  Rows of
            # unequal length: the top / the bottom row / all rows but a middle one narrowed from the right, or random
            # holes; in 3 of 4 such documents the placeholders after the last specifier of a row are left off (the
            # form armi's own map writer produces).
            xs_ = sorted({c[0] for c in contents})
            ys_ = sorted({c[1] for c in contents})
            if ragged in ("narrow-top", "narrow-bottom", "wide-middle"):
                rowsNarrow = {"narrow-top": ys_[-1:], "narrow-bottom": ys_[:1], "wide-middle": [y for y in ys_ if y != ys_[len(ys_) // 2]]}[ragged]
                keepCols = hr.randint(1, len(xs_) - 1)
                for y in rowsNarrow:
                    for x in xs_[keepCols:]:
                        if (x, y) != (0, 0):
                            del contents[(x, y)]
            elif ragged == "random-holes":
                for c in hr.sample(sorted(contents), hr.randint(1, max(1, len(contents) // 2))):
                    if c != (0, 0):
                        del contents[c]
            trim = ragged != "no" and hr.random() < 0.75
            ml = []
            for y in reversed(ys_):
                toks = [contents.get((x, y), "-") for x in xs_]
                while trim and len(toks) > 1 and toks[-1] == "-":
                    toks.pop()
                ml.append(" ".join(toks))
            desc["cartesianMapRows"] = ragged + ("/trailing placeholders left off" if trim else "")
            raggedKinds[desc["cartesianMapRows"]] = raggedKinds.get(desc["cartesianMapRows"], 0) + 1
        for ln in ml:
            L.append("      " + ln)
    if useSfp:
        L.append("  sfp:")
        L.append("    geom: cartesian")
        L.append("    symmetry: full")
        L.append("    lattice pitch: {x: 50.0, y: 50.0}")
        L.append("    grid contents:")
        for i, j in [(0, 0), (1, 0), (0, 1)][: rng.randint(1, 3)]:
            L.append("      [%d, %d]: %s" % (i, j, rng.choice(specs)))
    if cartPins is not None:
        hp = cartPins
        px, py = hp.randint(2, 5), hp.randint(2, 5)
        pc = {(x - px // 2, y - py // 2): hp.choice(["F", "F", "F", "G", "H"]) for x in range(px) for y in range(py)}
        pc[(0, 0)] = "G"
        kind_ = hp.choice(["narrow-top", "narrow-top", "narrow-bottom", "random-holes", "rect"])
        if kind_ in ("narrow-top", "narrow-bottom"):
            y = (py - 1 - py // 2) if kind_ == "narrow-top" else -(py // 2)
            for x in range(hp.randint(1, px - 1), px):
                pc.pop((x - px // 2, y) if (x - px // 2, y) != (0, 0) else None, None)
        elif kind_ == "random-holes":
            for c in hp.sample(sorted(pc), hp.randint(1, len(pc) // 2)):
                if c != (0, 0):
                    del pc[c]
        trimP = hp.random() < 0.75
        L.append("  pins:")
        L.append("    geom: cartesian")
        L.append("    symmetry: full")
        L.append("    lattice pitch: {x: 1.6, y: 1.6}")
        L.append("    lattice map: |")
        for y in reversed(range(py)):
            toks = [pc.get((x - px // 2, y - py // 2), "-") for x in range(px)]
            while trimP and len(toks) > 1 and toks[-1] == "-":
                toks.pop()
            L.append("      " + " ".join(toks))
        desc["cartesianPinMapRows"] = kind_ + ("/trailing placeholders left off" if trimP else "")
        raggedKinds["pins: " + desc["cartesianPinMapRows"]] = raggedKinds.get("pins: " + desc["cartesianPinMapRows"], 0) + 1
    elif usePinGrid:
        Rp = rng.randint(2, 3)
        pc = {c: rng.choice(["F", "F", "F", "G", "H"]) for c in fullHexCells(Rp)}
        pc[(0, 0)] = "G"
        L.append("  pins:")
        L.append("    geom: hex_corners_up")
        L.append("    symmetry: full")
        if rng.random() < 0.5:
            L.append("    lattice map: |")
            for ln in tipsMapText(pc, Rp):
                L.append("      " + ln)
        else:
            L.append("    grid contents:")
            for (i, j), s in sorted(pc.items()):
                L.append("      [%d, %d]: %s" % (i, j, s))
    return "\n".join(L) + "\n", desc


# =============================================================================================== inconsistent documents
def expectRefusal(kind, text, note):
    """armi must raise somewhere between load and the finished reactor."""
    B.case(("bad", kind, text), {"bad": kind})
    try:
        constructFromText(text, baseSettings())
    except Exception as e:
        refusals.setdefault(kind, set()).add(type(e).__name__)
        return True
    violation("refuse.accepted-bad." + kind, "inconsistent document (%s) was built without any error" % note, {"kind": kind, "text": text}, len(text))
    return False


refusals = {}
observedNotRefused = {}


def observe(kind, text, note):
    """Inconsistencies armi has no documented check for: recorded, not judged."""
    try:
        constructFromText(text, baseSettings())
        observedNotRefused[kind] = note
    except Exception as e:
        refusals.setdefault(kind + " (observed)", set()).add(type(e).__name__)


GOOD = """blocks:
  fuel: &block_fuel
    fuel:
      shape: Circle
      material: UZr
      Tinput: 25.0
      Thot: 600.0
      id: 0.0
      mult: 7.0
      od: 0.8
    bond:
      shape: Circle
      material: Void
      Tinput: 450.0
      Thot: 450.0
      id: fuel.od
      mult: fuel.mult
      od: clad.id
    clad:
      shape: Circle
      material: HT9
      Tinput: 25.0
      Thot: 450.0
      id: 0.9
      mult: fuel.mult
      od: 1.0
    wire:
      shape: Helix
      material: HT9
      Tinput: 25.0
      Thot: 450.0
      axialPitch: 30.0
      helixDiameter: 1.1
      id: 0.0
      mult: fuel.mult
      od: 0.1
    coolant:
      shape: DerivedShape
      material: Sodium
      Tinput: 450.0
      Thot: 450.0
    duct:
      shape: Hexagon
      material: HT9
      Tinput: 25.0
      Thot: 450.0
      ip: 16.0
      mult: 1.0
      op: 16.6
    intercoolant:
      shape: Hexagon
      material: Sodium
      Tinput: 450.0
      Thot: 450.0
      ip: duct.op
      mult: 1.0
      op: 16.75
  plenum: &block_plenum
    coolant:
      shape: DerivedShape
      material: Sodium
      Tinput: 450.0
      Thot: 450.0
    duct:
      shape: Hexagon
      material: HT9
      Tinput: 25.0
      Thot: 450.0
      ip: 16.0
      mult: 1.0
      op: 16.6
    intercoolant:
      shape: Hexagon
      material: Sodium
      Tinput: 450.0
      Thot: 450.0
      ip: duct.op
      mult: 1.0
      op: 16.75
assemblies:
  igniter fuel:
    specifier: IC
    blocks: [*block_fuel, *block_plenum]
    height: [H1, H2]
    axial mesh points: [1, 2]
    xs types: [A, B]
    material modifications:
      U235_wt_frac: [0.11, '']
  feed fuel:
    specifier: OC
    blocks: [*block_plenum, *block_fuel]
    height: [H1, H2]
    axial mesh points: [1, 1]
    xs types: [A, A]
systems:
  core:
    grid name: core
    origin: {x: 0.0, y: 0.0, z: 0.0}
grids:
  core:
    geom: hex
    symmetry: third periodic
    lattice map: |
      OC
       IC OC
"""


def mustReplace(text, old, new):
    assert text.count(old) >= 1, old
    return text.replace(old, new, 1)


def badDocuments(rng):
    good = GOOD.replace("H1", repr(f4(rng.uniform(10, 40)))).replace("H2", repr(f4(rng.uniform(10, 40))))
    yield "GOOD", good, None
    r = mustReplace
    yield "unknown-specifier-map", r(good, "       IC OC", "       IC XX"), "core lattice map names a specifier no assembly has"
    yield "unknown-specifier-contents", r(good, "    lattice map: |\n      OC\n       IC OC\n", "    grid contents:\n      [0, 0]: IC\n      [1, 0]: XX\n"), "grid contents name a specifier no assembly has"
    yield "unequal-heights-long", r(good, "    height: [", "    height: [7.5, "), "height list longer than blocks list"
    first = good.index("    height: [")
    end = good.index("]", first)
    yield "unequal-heights-one", good[:first] + "    height: [12.0" + good[end:], "height list shorter than blocks list"
    yield "unequal-xstypes", r(good, "xs types: [A, B]", "xs types: [A]"), "xs types list shorter than blocks list"
    yield "unequal-xstypes-long", r(good, "xs types: [A, B]", "xs types: [A, B, C]"), "xs types list longer than blocks list"
    yield "unequal-meshpoints", r(good, "axial mesh points: [1, 2]", "axial mesh points: [1, 2, 1]"), "axial mesh points list longer than blocks list"
    yield "unequal-meshpoints-short", r(good, "axial mesh points: [1, 2]", "axial mesh points: [1]"), "axial mesh points list shorter than blocks list"
    yield "unequal-blocks-long", r(good, "blocks: [*block_fuel, *block_plenum]", "blocks: [*block_fuel, *block_plenum, *block_plenum]"), "blocks list longer than height/xs/mesh lists"
    yield "unequal-matmods", r(good, "U235_wt_frac: [0.11, '']", "U235_wt_frac: [0.11]"), "material modification list shorter than blocks list"
    # duplicate names (the property says refused; armi's user manual says duplicate YAML keys are NOT detected) - crafted
    # so that no unrelated error can mask the outcome
    yield "duplicate-component-name", r(good, "    wire:\n      shape: Helix", "    bond:\n      shape: Helix"), "two components of one block are both named `bond`"
    yield "duplicate-block-name", r(good, "  plenum: &block_plenum", "  fuel: &block_plenum"), "two block designs are both named `fuel`"
    yield "duplicate-assembly-name", r(r(good, "  feed fuel:\n    specifier: OC", "  igniter fuel:\n    specifier: OC"), "       IC OC", "       OC OC"), "two assembly designs are both named `igniter fuel`"
    yield "duplicate-section", good + "\n" + good[good.index("assemblies:") : good.index("systems:")], "the assemblies section appears twice"
    yield "overlap-clad-inside-out", r(good, "      id: 0.9\n      mult: fuel.mult\n      od: 1.0", "      id: 1.0\n      mult: fuel.mult\n      od: 0.9"), "solid clad with od < id (negative area)"
    yield "overlap-fuel-in-clad-linked-gap", r(good, "      mult: 7.0\n      od: 0.8", "      mult: 7.0\n      od: 0.95"), "fuel od > clad id, the linked void gap between them has negative cold area"
    yield "overlap-pins-duct", r(good, "      mult: 7.0\n      od: 0.8", "      mult: 397.0\n      od: 0.8"), "397 wire-wrapped pins do not fit in the duct (pin-to-duct gap << 0)"
    yield "bad-link-target", r(good, "      od: clad.id", "      od: liner.id"), "dimension linked to a component that is not in the block"
    yield "unknown-grid-name", r(good, "    grid name: core\n", "    grid name: kore\n"), None


# =============================================================================================== replay
def runShipped(rel, heightsHot=True, suffix=""):
    path = os.path.join(TESTS_DIR, rel)
    if not os.path.exists(path):
        B.extra.setdefault("shipped_missing", []).append(rel)
        return
    sdoc = YAML(typ="safe", pure=True).load(open(path).read())
    loading = os.path.join(os.path.dirname(path), sdoc["settings"]["loadingFile"])
    runCase(rel + suffix, resolveIncludes(loading), lambda p=path: constructFromSettingsFile(p, heightsHot))


OWN = " [own inputHeightsConsideredHot]"
if B.replay is not None:
    t = B.replay.get("text")
    case = str(B.replay.get("case", ""))
    if "kind" in B.replay:
        expectRefusal(B.replay["kind"], t, "replay")
    elif t:
        cs0 = baseSettings()
        runCase("replay", t, lambda: (cs0, constructFromText(t, cs0)))
    elif case:  # a shipped document, named by its settings file
        runShipped(case.replace(OWN, ""), None if case.endswith(OWN) else True, OWN if case.endswith(OWN) else "")
    print(json.dumps({"result": "fail" if _COUNT else "pass", "violations": _COUNT}))
    os.chdir(_CWD0)
    _TMP.cleanup()
    sys.exit(0)

# =============================================================================================== run: shipped documents
SHIPPED = [
    "smallestTestReactor/armiRunSmallest.yaml",
    "refTestCartesian.yaml",
    "armiRun.yaml",
    "detailedAxialExpansion/armiRun.yaml",
    "c5g7/c5g7-settings.yaml",
]
if THOROUGH:
    SHIPPED += ["anl-afci-177/anl-afci-177.yaml", "zpprTest.yaml", "godiva/godiva.armi.unittest.yaml"]
for rel in SHIPPED:
    runShipped(rel, True)
    if THOROUGH:  # also with the case's own height convention (heights are then compared only if it is "hot")
        runShipped(rel, None, OWN)

# =============================================================================================== run: generated documents
NGEN = 1500 if THOROUGH else 150
gridKinds = {}
nBuilt = 0
for n in range(NGEN):
    text, desc = genDocument(rng, n)
    cs0 = baseSettings()
    ok = runCase("gen-%d" % n, text, lambda t=text, c=cs0: (c, constructFromText(t, c)), sample=dict(desc, case="gen-%d" % n))
    nBuilt += bool(ok)
    gridKinds[desc["grid"]] = gridKinds.get(desc["grid"], 0) + 1
B.extra["generated_built"] = nBuilt
B.extra["generated_grid_kinds"] = gridKinds
B.extra["generated_cartesian_map_rows"] = dict(sorted(raggedKinds.items()))

# =============================================================================================== run: inconsistent documents
for rep in range(5 if THOROUGH else 1):
    for kind, text, note in badDocuments(rng):
        if kind == "GOOD":
            cs0 = baseSettings()
            runCase("bad-base-%d" % rep, text, lambda t=text, c=cs0: (c, constructFromText(t, c)))
        elif note is None:
            observe(kind, text, "accepted")
        else:
            expectRefusal(kind, text, note)
    if rep == 0:
        g = GOOD.replace("H1", "20.0").replace("H2", "30.0")
        observe("duplicate-specifier", mustReplace(g, "    specifier: OC", "    specifier: IC"), "two assembly designs share specifier IC: accepted, the later design silently wins")
        observe("overlap-fuel-in-clad-no-gap", mustReplace(g, "      id: fuel.od\n      mult: fuel.mult\n      od: clad.id", "      id: 0.0\n      mult: fuel.mult\n      od: 0.0").replace("      mult: 7.0\n      od: 0.8", "      mult: 7.0\n      od: 0.95"), "fuel od 0.95 inside clad id 0.9 without a linked gap component: accepted (armi has no check for unlinked overlap)")

B.extra["refusal_exception_types"] = {k: sorted(v) for k, v in sorted(refusals.items())}
B.extra["observed_not_refused"] = observedNotRefused
B.extra["skipped"] = skipped
B.extra["composition_checks_done"] = done
B.extra["index_oracle"] = indexOracle
B.extra["timings_s"] = {k: v for k, v in timings.items() if not k.startswith("gen-") and not k.startswith("bad-")}
B.extra["not_checked"] = "composition after material modifications, library-material densities, hot dimensions, masses, number-fraction isotopics, custom density on non-Custom materials"
flushViolations()
os.chdir(_CWD0)
_TMP.cleanup()
B.finish(exhaustive=False)
