"""C05 bounded tier (2/2): flag sets keep their meaning through bytes, and when the set of defined flags is extended
or re-ordered between writing and reading.

Executable contract on the REAL armi code (armi.utils.flags.Flag, armi.reactor.flags.Flags,
armi.reactor.composites.FlagSerializer, Database._writeAttrs/_resolveAttrs/_writeParams/_readParams):

  flags.bytes    cls.from_bytes(f.to_bytes(order), order) == f, len(f.to_bytes()) == cls.width()
  flags.width    cls.width() == ceil(number of fields / 8), also after extend(); values pairwise distinct powers of two
  flags.bitmap   FlagSerializer._remapBits(inp, mapping): bit mapping[b] of the result is set iff bit b of inp is set
                 (oracle: own sum over the set bits), injective mappings, width <= 129
  flags.remap    FlagSerializer._packImpl(data, A) -> HDF5 dataset + attributes -> FlagSerializer._unpackImpl(.., B)
                 gives, for every written flag set, the flag set of B with the SAME NAMES, where B's fields are a
                 permutation of A's, and/or extended with new names (in the class body or through Flag.extend), and/or
                 lack some of A's names (the reader then adds them, as documented)
  flags.format   the stored form is what the serializer documents: row = little-endian bytes, bit i = i-th name of the
                 stored flag_order (cross-check of the hand-built "old file" rows against the real pack())
  flags.real     the same with the real armi.reactor.flags.Flags: identity; "old files" built by hand with a permuted
                 and/or smaller flag_order; then Flags.extend() with new names (real extension API) and files written
                 before the extension read after it; unknown names in the file
  flags.db       the hand-built old files read through Database._readParams into composites; and
                 Database._writeParams/_readParams of the `flags` parameter
  flags.explicit-values   as flags.remap for classes whose fields have explicit, non-contiguous bit values
                 (field index != bit position); outside "all flag orderings" of auto() fields, reported separately
  (flags.remap and flags.explicit-values end in .read-error when reading raises and in .wrong-meaning when other names
  come back: two failure classes, two ids)
Oracle: names.  A flag set "means" the set of field names that are on (Flag._flagsOn()).
"""
import sys, os
sys.path.insert(0, os.path.dirname(os.path.abspath(__file__)))
import json
import math
import random
import tempfile

from common import Bounded

_TMP = tempfile.TemporaryDirectory(prefix="c05f_")  # armi creates ./logs on import: keep that out of /verif
os.chdir(_TMP.name)
from common import armi_ready  # noqa: E402

armi_ready()
import numpy as np  # noqa: E402
import h5py  # noqa: E402
from armi import runLog  # noqa: E402
from armi.bookkeeping.db.database import Database  # noqa: E402
from armi.reactor import composites  # noqa: E402
from armi.reactor.composites import FlagSerializer  # noqa: E402
from armi.reactor.flags import Flags  # noqa: E402
from armi.utils.flags import Flag, auto  # noqa: E402

runLog.setVerbosity("header")

B = Bounded(
    "Flag classes of n auto() fields (n around every byte boundary), the real Flags class, every single flag, the empty and "
    "the full set and seeded random combinations; reader classes = seeded permutations of the writer's field list, with k "
    "new names inserted / appended through Flag.extend and m names removed; _remapBits on seeded injective bit maps; "
    "distinct = distinct (clause, class sizes, permutation seed, flag set)",
    "n <= 129 fields (real Flags: 66, extended to 75 and beyond); quick: 12 sizes x 14 reader classes x (n + 50) flag sets, "
    "40 + 20 hand-built orderings of the real Flags; thorough: 24 sizes x 62 reader classes x (n + 202), 300 + 150 orderings; "
    "_remapBits: widths <= 129 into <= 258",
)
T = B.thorough()
SIZES = [1, 2, 7, 8, 9, 15, 16, 17, 24, 31, 32, 33, 40, 63, 64, 65, 66, 72, 73, 100, 127, 128, 129, 96] if T else [1, 2, 7, 8, 9, 16, 17, 33, 64, 65, 66, 129]
NPERM = 60 if T else 12
NCOMBO = 200 if T else 48
NREAL = 300 if T else 40
VIOL, VCOUNT, REJECT, PATHS = {}, {}, {}, {}
_meta = type(Flag)


def hit(d, k):
    d[k] = d.get(k, 0) + 1


def flag(vid, what, inp):
    VCOUNT[vid] = VCOUNT.get(vid, 0) + 1
    js = json.dumps(inp, sort_keys=True)
    size = (len(js), js)  # deterministic: shortest, then alphabetical
    if vid not in VIOL or size < VIOL[vid][0]:
        VIOL[vid] = (size, what, inp)


def mkclass(name, names, explicit=None):
    return _meta(name, (Flag,), {n: (explicit[n] if explicit and n in explicit else auto()) for n in names})


def from_names(cls, names):
    f = cls(0)
    for n in names:
        f = f | cls[n]
    return f


def name_sets(names, rng, ncombo):
    """Every single flag, none, all, and seeded random combinations of every density."""
    out = [[n] for n in names] + [[], list(names)]
    for _ in range(ncombo):
        p = rng.choice((0.05, 0.2, 0.5, 0.9))
        out.append([n for n in names if rng.random() < p])
    return out


class H5:
    """In-memory HDF5 files (never on disk); a new one every 500 groups, all kept open until the end because a group
    written "before the extension" is read again later."""

    def __init__(self):
        self.files = [h5py.File("c05flags.h5", "w", driver="core", backing_store=False)]
        self.n = 0

    def group(self):
        self.n += 1
        if self.n % 500 == 0:
            self.files.append(h5py.File("c05flags-%d.h5" % self.n, "w", driver="core", backing_store=False))
        return self.files[-1].create_group("g%06d" % self.n)

    def close(self):
        for f in self.files:
            f.close()


H = H5()


def through_h5(rows, attrs, extra=None, cname="x"):
    """Dataset + attributes the way _writeParams stores a serialized parameter; returns (group, raw rows, resolved attrs)."""
    g = H.group()
    sub = g.create_group(cname, track_order=True)
    ds = sub.create_dataset("flags", data=rows, compression="gzip", track_order=True)
    a = dict(attrs)
    a.update(extra or {})
    Database._writeAttrs(ds, g, a)
    return g, sub["flags"][:], Database._resolveAttrs(sub["flags"].attrs, g)


# ------------------------------------------------------------------------------------------------ flags.bytes / width
def check_bytes(p):
    """p = {"n": fields, "mode": "auto" | "extend" | "real", "seed": s}"""
    rng = random.Random(p["seed"])
    n = p["n"]
    names = ["N%d" % i for i in range(n)]
    if p["mode"] == "real":
        cls = Flags
        names = list(Flags.fields())
        n = len(names)
    elif p["mode"] == "extend":
        n0 = max(1, n // 2)
        cls = mkclass("Ext", names[:n0])
        cls.extend({nm: auto() for nm in names[n0:]})
    else:
        cls = mkclass("Auto", names)
    vals = sorted(cls.fields().values())
    B.case(("width", p["mode"], n))
    if cls.width() != math.ceil(n / 8) or len(set(vals)) != n or any(v & (v - 1) or v <= 0 for v in vals) or set(cls.fields()) != set(names):
        flag("flags.width", "width != ceil(n/8) or field values are not n distinct powers of two: width=%s n=%d" % (cls.width(), n), p)
    for S in name_sets(names, rng, NCOMBO):
        f = from_names(cls, S)
        B.case(("bytes", p["mode"], n, int(f)), {"clause": "flags.bytes", "n": n, "on": S[:5]})
        for order in (None, "little", "big"):
            args = () if order is None else (order,)  # None: the default byte order on both sides, as the serializer calls them
            try:
                b = f.to_bytes(*args)
            except OverflowError:
                hit(REJECT, "to_bytes: OverflowError")
                continue
            g = cls.from_bytes(b, *args)
            order = order or "little"
            if not (isinstance(g, cls) and g == f and g._flagsOn() == set(S) and len(b) == cls.width() and int.from_bytes(b, order) == int(f)):
                flag("flags.bytes", "from_bytes(to_bytes(f)) != f (byteorder %s): f=%d back=%d len=%d width=%d" % (order, int(f), int(g), len(b), cls.width()), dict(p, on=S))


# ------------------------------------------------------------------------------------------------ flags.bitmap
def check_bitmap(p):
    """p = {"w": source width, "W": target width, "seed": s}"""
    rng = random.Random(p["seed"])
    w, W = p["w"], p["W"]
    mapping = dict(zip(range(w), rng.sample(range(W), w)))  # injective
    inputs = [1 << b for b in range(w)] + [0, (1 << w) - 1] + [rng.getrandbits(w) for _ in range(NCOMBO)]
    for inp in inputs:
        B.case(("bitmap", w, W, p["seed"], inp), {"clause": "flags.bitmap", "w": w, "inp": str(inp)})
        exp = sum(1 << mapping[b] for b in range(w) if (inp >> b) & 1)
        try:
            got = FlagSerializer._remapBits(inp, mapping)
        except Exception as e:
            got = repr(e)
        if got != exp:
            flag("flags.bitmap", "_remapBits: result bit mapping[b] must be set iff input bit b is set: inp=%d expected=%d got=%s" % (inp, exp, got), dict(p, inp=str(inp)))


# ------------------------------------------------------------------------------------------------ flags.remap
def reader_class(names, p, rng, explicit=None):
    """The reading application's Flag class, derived from the writer's names (same explicit values, if any)."""
    new = list(names)
    if p.get("permute", True):
        rng.shuffle(new)
    removed = []
    for _ in range(min(p.get("missing", 0), len(new) - 1)):
        removed.append(new.pop(rng.randrange(len(new))))
    extra = ["X%d" % i for i in range(p.get("extra", 0))]
    if p.get("how", "class") == "class":
        for x in extra:
            new.insert(rng.randrange(len(new) + 1), x)
        cls = mkclass("Reader", new, explicit)
    else:  # the real extension API, in two steps
        cls = mkclass("Reader", new, explicit)
        cls.extend({x: auto() for x in extra[: len(extra) // 2]})
        cls.extend({x: auto() for x in extra[len(extra) // 2:]})
    return cls, removed


def check_remap(p):
    """p = {"n", "seed", "permute", "extra", "missing", "how": "class"|"extend", "explicit": bool}"""
    rng = random.Random(p["seed"])
    n = p["n"]
    names = ["N%d" % i for i in range(n)]
    vid = "flags.remap"
    if p.get("explicit"):
        # explicit, gapped bit values: field index (what flag_order stores) != bit position
        vid = "flags.explicit-values"
        gaps = sorted(rng.sample(range(n + 3), n))  # at most 3 unused bit positions below the highest field
        explicit = {nm: 1 << g for nm, g in zip(names, gaps)}
        A = mkclass("Writer", names, explicit)
    else:
        explicit = None
        A = mkclass("Writer", names)
    Bcls, removed = reader_class(names, p, rng, explicit)
    sets = name_sets(names, rng, NCOMBO)
    try:
        data = [from_names(A, S) for S in sets]
        rows, attrs = FlagSerializer._packImpl(data, A)
    except Exception as e:  # rejected at write time
        hit(REJECT, "%s pack: %s" % (vid, type(e).__name__))
        return
    if rows.shape != (len(sets), A.width()) or rows.dtype != np.uint8:
        flag(vid, "pack: rows are not (number of objects) x width uint8", p)
        return
    _, raw, rattrs = through_h5(rows, attrs)
    try:
        out = FlagSerializer._unpackImpl(raw, FlagSerializer.version, rattrs, Bcls)
    except Exception as e:
        flag(vid + ".read-error", "written flags cannot be read by an application whose flags are %s: %r" % (describe(p), e), p)
        return
    hit(PATHS, "same-order fast path" if list(rattrs["flag_order"]) == Bcls.sortedFields()[: len(names)] else "bit remap path")
    if removed:
        hit(PATHS, "reader lacked names -> extended by unpack")
    if len(out) != len(sets):
        flag(vid, "number of flag sets changed", p)
        return
    for S, o in zip(sets, out):
        B.case((vid, json.dumps(p, sort_keys=True), tuple(S)), {"clause": vid, "p": p, "on": S[:5]})
        if not (isinstance(o, Bcls) and o._flagsOn() == set(S)):
            flag(vid + ".wrong-meaning", "flags %s written, %s read by an application whose flags are %s" % (sorted(S), sorted(o._flagsOn()), describe(p)), dict(p, on=S))
            break


def describe(p):
    return "%s%s%s" % ("permuted" if p.get("permute", True) else "same order", ", +%d new (%s)" % (p["extra"], p.get("how", "class")) if p.get("extra") else "",
                       ", -%d removed" % p["missing"] if p.get("missing") else "")


# ------------------------------------------------------------------------------------------------ flags.real / flags.db
class C05FlagObj(composites.Composite):
    """Uses the base parameter collection: only `flags` (FlagSerializer) and serialNum."""


def handbuilt(order, sets):
    """An "old file": rows as an application whose sortedFields() was `order` would have written them."""
    w = math.ceil(len(order) / 8)
    pos = {n: i for i, n in enumerate(order)}
    return np.array([list(sum(1 << pos[n] for n in S).to_bytes(w, "little")) for S in sets], dtype=np.uint8).reshape(len(sets), w)


def check_real(p):
    """p = {"seed", "subset": fraction of the current names known to the old application, "unknown": names only the file knows,
    "via": "unpack" | "readParams"}"""
    rng = random.Random(p["seed"])
    now = Flags.sortedFields()
    old = [n for n in now if rng.random() < p.get("subset", 1.0)] or now[:1]
    if p.get("permute", True):
        rng.shuffle(old)
    unknown = ["C05_OLD_%d_%d" % (p["seed"], i) for i in range(p.get("unknown", 0))]
    for u in unknown:
        old.insert(rng.randrange(len(old) + 1), u)
    sets = name_sets(old, rng, NCOMBO)
    rows = handbuilt(old, sets)
    extra = {"serializerName": "FlagSerializer", "serializerVersion": FlagSerializer.version}
    g, raw, rattrs = through_h5(rows, {"flag_order": old}, extra, "C05FlagObj")
    try:
        if p.get("via") == "readParams":
            comps = [C05FlagObj("f%d" % i) for i in range(len(sets))]
            Database._readParams(g, "C05FlagObj", comps)
            out = [c.p.flags for c in comps]
        else:
            out = FlagSerializer.unpack(raw, FlagSerializer.version, rattrs)
    except Exception as e:
        flag("flags.db" if p.get("via") == "readParams" else "flags.real", "old file (flag_order permuted/subset of the current Flags) cannot be read: %r" % e, p)
        return
    vid = "flags.db" if p.get("via") == "readParams" else "flags.real"
    for S, o in zip(sets, out):
        B.case((vid, json.dumps(p, sort_keys=True), len(Flags.fields()), tuple(S)), {"clause": vid, "p": p, "on": S[:5]})
        if not (isinstance(o, Flags) and o._flagsOn() == set(S)):
            flag(vid, "old file says %s, current Flags reads %s (old order: %d names, %s)" % (sorted(S), sorted(o._flagsOn()) if isinstance(o, Flag) else o, len(old), describe(p)), dict(p, on=S))
            break
    if len(out) != len(sets):
        flag(vid, "number of flag sets changed", p)


def check_real_identity(p):
    """pack with the real Flags -> h5 -> unpack, and the documented storage format."""
    rng = random.Random(p["seed"])
    names = Flags.sortedFields()
    sets = name_sets(names, rng, NCOMBO)
    data = [from_names(Flags, S) for S in sets]
    rows, attrs = FlagSerializer.pack(data)
    if not np.array_equal(rows, handbuilt(names, sets)) or list(attrs["flag_order"]) != names:
        flag("flags.format", "pack() rows are not little-endian bytes with bit i = i-th name of flag_order", p)
    _, raw, rattrs = through_h5(rows, attrs)
    out = FlagSerializer.unpack(raw, FlagSerializer.version, rattrs)
    for S, d, o in zip(sets, data, out):
        B.case(("real-identity", len(names), tuple(S)))
        if not (isinstance(o, Flags) and o == d and o._flagsOn() == set(S)):
            flag("flags.real", "unpack(pack(f)) != f for the real Flags: %s -> %s" % (sorted(S), o), dict(p, on=S))
            break
    return rows, attrs, sets


def check_db_write(p):
    """Database._writeParams/_readParams of the `flags` parameter."""
    rng = random.Random(p["seed"])
    sets = name_sets(Flags.sortedFields(), rng, NCOMBO)
    comps = [C05FlagObj("w%d" % i) for i in range(len(sets))]
    for c, S in zip(comps, sets):
        c.p.flags = from_names(Flags, S)
    g = H.group()
    Database("c05-unused.h5", "w")._writeParams(g, comps)
    fresh = [C05FlagObj("r%d" % i) for i in range(len(sets))]
    Database._readParams(g, "C05FlagObj", fresh)
    for S, c in zip(sets, fresh):
        B.case(("db-write", len(Flags.fields()), tuple(S)))
        if not (isinstance(c.p.flags, Flags) and c.p.flags._flagsOn() == set(S)):
            flag("flags.db", "_writeParams/_readParams of the flags parameter: wrote %s read %s" % (sorted(S), c.p.flags), dict(p, on=S))
            break


CHECKS = {"bytes": check_bytes, "bitmap": check_bitmap, "remap": check_remap, "real": check_real, "real-identity": check_real_identity, "db-write": check_db_write}


def run(kind, p):
    p = dict(p, check=kind)
    CHECKS[kind](p)


def main():
    if B.replay is not None:
        p = dict(B.replay)
        p.pop("on", None)
        p.pop("inp", None)
        if p.get("post_extension"):
            Flags.extend({"C05_NEW_%d" % i: auto() for i in range(9)})
        CHECKS[p["check"]](p)
        print(json.dumps({"result": "fail" if VIOL else "pass", "violations": [{"id": k, "what": v[1]} for k, v in sorted(VIOL.items())]}))
        return
    seeds = B.rng
    for n in SIZES:
        for mode in ("auto", "extend"):
            run("bytes", {"n": n, "mode": mode, "seed": seeds.randrange(10**6)})
    run("bytes", {"n": 0, "mode": "real", "seed": seeds.randrange(10**6)})
    for w in SIZES:
        for W in sorted({w, w + 1, w + 9, 2 * w}):
            for _ in range(3 if T else 1):
                run("bitmap", {"w": w, "W": W, "seed": seeds.randrange(10**6)})
    for n in SIZES:
        for k in range(NPERM):
            variant = [
                {"permute": True, "extra": 0, "missing": 0},
                {"permute": True, "extra": 1 + k % 9, "missing": 0, "how": "class"},
                {"permute": False, "extra": 1 + k % 9, "missing": 0, "how": "extend"},
                {"permute": True, "extra": 9, "missing": 0, "how": "extend"},
                {"permute": True, "extra": k % 3, "missing": 1 + k % 2},
                {"permute": False, "extra": 0, "missing": 0},
            ][k % 6]
            run("remap", dict(variant, n=n, seed=seeds.randrange(10**6)))
        # fixed seeds (independent of --seed): the only id that fires on the current tree keeps the same smallest input
        run("remap", {"n": n, "seed": 1000 + n, "permute": False, "extra": 0, "missing": 0, "explicit": True})
        run("remap", {"n": n, "seed": 2000 + n, "permute": True, "extra": 1, "missing": 0, "explicit": True})
    # the real Flags class
    n0 = len(Flags.fields())
    rowsOld, attrsOld, setsOld = check_real_identity({"check": "real-identity", "seed": seeds.randrange(10**6)})
    gOld, _, _ = through_h5(rowsOld, attrsOld, {"serializerName": "FlagSerializer", "serializerVersion": FlagSerializer.version}, "C05FlagObj")
    for k in range(NREAL):
        run("real", {"seed": seeds.randrange(10**6), "subset": (1.0, 0.5, 0.9)[k % 3], "permute": k % 5 != 4, "unknown": 0, "via": ("unpack", "readParams")[k % 2]})
    run("db-write", {"seed": seeds.randrange(10**6)})
    # extension through the real API: 9 new names take the real Flags over a byte boundary (66 -> 75 fields, 9 -> 10 bytes)
    Flags.extend({"C05_NEW_%d" % i: auto() for i in range(9)})
    B.extra["real_flags_fields"] = {"before": n0, "after_extend": len(Flags.fields())}
    run("bytes", {"n": 0, "mode": "real", "seed": seeds.randrange(10**6), "post_extension": True})
    # a file written before the extension, read after it
    comps = [C05FlagObj("o%d" % i) for i in range(len(setsOld))]
    Database._readParams(gOld, "C05FlagObj", comps)
    for S, c in zip(setsOld, comps):
        B.case(("real-old-file-after-extend", tuple(S)))
        if not (isinstance(c.p.flags, Flags) and c.p.flags._flagsOn() == set(S)):
            flag("flags.db", "file written before Flags.extend(), read after it: wrote %s read %s" % (sorted(S), c.p.flags), {"check": "real-identity", "on": S})
            break
    check_real_identity({"check": "real-identity", "seed": seeds.randrange(10**6), "post_extension": True})
    for k in range(NREAL // 2):
        run("real", {"seed": seeds.randrange(10**6), "subset": (1.0, 0.5, 0.9)[k % 3], "permute": k % 5 != 4, "unknown": (0, 1, 3)[k % 3], "via": ("unpack", "readParams")[k % 2],
                     "post_extension": True})
    run("db-write", {"seed": seeds.randrange(10**6), "post_extension": True})
    B.extra["real_flags_fields"]["after_unknown_names_in_files"] = len(Flags.fields())
    for vid in sorted(VIOL):
        _, what, inp = VIOL[vid]
        B.violation(vid, what + "  [%d failing cases with this id]" % VCOUNT[vid], inp)
    B.extra["violation_counts"] = dict(sorted(VCOUNT.items()))
    B.extra["strategies_hit"] = dict(sorted(PATHS.items()))
    B.extra["rejected_at_write_time"] = dict(sorted(REJECT.items()))
    B.finish(exhaustive=False)


try:
    main()
finally:
    H.close()
    os.chdir("/")
    _TMP.cleanup()
