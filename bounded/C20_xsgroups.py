"""C20 bounded / enumerated tier: XS groups partition the blocks; representative blocks are true averages.

Executable contracts around the real armi code (getXSTypeNumberFromLabel / getXSTypeLabelFromNumber, Block.getMicroSuffix,
the envGroup/envGroupNum/xsType/xsTypeNum block parameters, CrossSectionGroupManager.makeCrossSectionGroups /
createRepresentativeBlocks, BlockCollection and its Median / Average / FluxWeightedAverage / cylindrical subclasses).

Clauses (violation id prefixes)
  label.*  env.*  suffix.*   [complete enumeration] all 52 one-letter and 2704 two-letter admissible type labels, all 52
                             environment letters / numbers, all (type, environment) pairs
  group.*                    every block of the core in exactly one group, keyed by type + independently computed env group
  rep.*                      representative block = weight-normalised mean (weights = weighting parameter x volume) of the
                             eligible members (per block, per component, area-weighted for the cylindrical option);
                             within [min,max], common value, duplication / weight-rescaling invariance; burnup = heavy-metal
                             weighted mean; median = copy of the member holding the median weighted burnup
  weights.*                  mixed zero / non-zero weights are refused (ValueError)
  core.*                     creating representatives never changes the blocks of the core

Block sets: deep copies of blocks of the default hex test reactor (loadTestReactor()), perturbed (compositions,
temperatures, burnups, heavy-metal masses, flux values all-zero / all-positive / mixed, types A..C), handed to the manager
through core.getBlocks.  Replay: --replay '<case json as reported in a violation input>'.
"""
import copy
import json
import math
import os
import sys
import tempfile
import time
import traceback

sys.path.insert(0, os.path.dirname(os.path.abspath(__file__)))
from common import Bounded, armi_ready

armi_ready()
import numpy as np

from armi import runLog, settings
from armi.physics.neutronics import crossSectionGroupManager as xsgm
from armi.physics.neutronics import crossSectionSettings
from armi.physics.neutronics.const import CONF_CROSS_SECTION
from armi.reactor.flags import Flags
from armi.utils.units import TRACE_NUMBER_DENSITY

B = Bounded(
    "labels/envs/suffixes: complete enumeration; block sets: seeded deep copies of test-reactor blocks (fuel designs and non-fuel "
    "types) with perturbed densities, temperatures, burnups, heavy-metal masses, flux (all-zero / all-positive / mixed), xs types "
    "A..C, burnup/temperature group bounds, representation (Median, Average, FluxWeightedAverage, by-component, "
    "ComponentAverage1DCylinder[+DuctHeterogeneous]) and valid-block-type filters; distinct = distinct case description",
    "labels: all 2756; (type, env) pairs: all 143312; block sets: quick <= 12 blocks x 300 cases, thorough <= 40 blocks x 1500 cases",
    label="bounded",
)
THOROUGH = B.thorough()
rng = B.rng
FOUND = {}
COUNTS = {}


def report(vid, what, inp, size=0):
    COUNTS[vid] = COUNTS.get(vid, 0) + 1
    if vid not in FOUND or size < FOUND[vid][0]:
        FOUND[vid] = [size, what, inp]


def check(cond, vid, what, inp, size=0):
    if not cond:
        report(vid, what, inp, size)
    return bool(cond)


def close(a, b, scale=0.0):
    return abs(a - b) <= 1e-9 * max(abs(a), abs(b), scale) + 1e-300


# ================================================================================================ labels (exhaustive)
def labelClause(block):
    letters = list(xsgm._ALLOWABLE_XS_TYPE_LIST)
    labels = letters + [a + b for a in letters for b in letters]
    B.extra["labels_enumerated"] = len(labels)
    seen = {}
    for lab in labels:
        B.case(("label", lab), {"clause": "label", "label": lab} if lab == "Ab" else None)
        try:
            num = xsgm.getXSTypeNumberFromLabel(lab)
        except Exception as e:  # noqa: BLE001
            report("label.to-number-raises", "an admissible label has no number: %r" % e, lab, len(lab))
            continue
        check(isinstance(num, int) and not isinstance(num, bool), "label.number-not-int", "the identifier must be an integer", lab, len(lab))
        if num in seen:
            report("label.collision", "labels %r and %r share the number %s" % (seen[num], lab, num), [seen[num], lab], len(lab))
        seen.setdefault(num, lab)
        try:
            back = xsgm.getXSTypeLabelFromNumber(num)
        except Exception as e:  # noqa: BLE001
            back = "%s: %s" % (type(e).__name__, e)
        check(back == lab, "label.roundtrip", "label -> number -> label must give the label back: %r -> %s -> %r" % (lab, num, back), lab, len(lab))
        # the block parameters xsType / xsTypeNum are linked through the two functions
        try:
            block.p.xsType = lab
            n2 = block.p.xsTypeNum
            block.p.xsTypeNum = n2
            check(block.p.xsType == lab and n2 == num, "label.param-roundtrip", "b.p.xsType=%r; b.p.xsTypeNum=b.p.xsTypeNum gives xsType %r" % (lab, block.p.xsType), lab, len(lab))
        except Exception as e:  # noqa: BLE001
            report("label.param-roundtrip", "setting b.p.xsType=%r then b.p.xsTypeNum raised %r" % (lab, e), lab, len(lab))
        try:
            crossSectionSettings._XS_SCHEMA({lab: {"geometry": "0D"}})
        except Exception as e:  # noqa: BLE001
            report("label.settings-rejected", "the cross-section settings schema refuses the admissible key %r: %r" % (lab, e), lab, len(lab))
    # environment group letter <-> number
    for n, letter in enumerate(letters):
        B.case(("env", letter))
        block.p.envGroupNum = n
        check(block.p.envGroup == letter, "env.number-to-letter", "envGroupNum %d must give the %d-th admissible letter %r, got %r" % (n, n, letter, block.p.envGroup), n)
        block.p.envGroup = letter
        check(block.p.envGroupNum == n, "env.letter-to-number", "envGroup %r must give number %d, got %r" % (letter, n, block.p.envGroupNum), letter)
    B.case(("env", "beyond"))
    try:
        block.p.envGroupNum = len(letters)
        check(False, "env.number-not-a-letter", "envGroupNum %d (one past the %d admissible letters) is accepted and gives the environment group %r" % (len(letters), len(letters), block.p.envGroup), len(letters))
    except RuntimeError:
        pass
    # micro suffix
    pairs = 0
    one = {}
    two = {}
    for t in labels:
        block.p.xsType = t
        for env in letters:
            pairs += 1
            block.p.envGroup = env
            try:
                suf = block.getMicroSuffix()
                err = None
            except Exception as e:  # noqa: BLE001
                suf, err = None, e
            if len(t) == 1:
                if check(err is None and suf == t + env, "suffix.one-letter-type", "suffix of type %r, env %r must be %r; got %r" % (t, env, t + env, err or suf), [t, env]):
                    if suf in one:
                        report("suffix.collision", "pairs %s and %s share the suffix %r" % (one[suf], (t, env), suf), [one[suf], [t, env]])
                    one[suf] = (t, env)
            elif env == "A":
                if check(err is None and suf == t, "suffix.two-letter-type", "suffix of the two-letter type %r (env A) must be the type; got %r" % (t, err or suf), [t, env]):
                    if suf in two:
                        report("suffix.collision", "pairs %s and %s share the suffix %r" % (two[suf], (t, env), suf), [two[suf], [t, env]])
                    two[suf] = (t, env)
            else:
                check(isinstance(err, ValueError), "suffix.two-letter-type-with-env", "a two-letter type with a non-default env group must raise ValueError; got %r" % (err or suf), [t, env])
    B.case(("suffix", "all-pairs"), nontrivial=True)
    B.extra["type_env_pairs_enumerated"] = pairs
    mixed = sorted(set(one) & set(two))
    if mixed:
        s = mixed[0]
        report("suffix.collision.one-vs-two-letter-type", "%d suffixes are shared by a one-letter type with an env group and a two-letter type, e.g. %s and %s -> %r (two-letter types are documented as admissible only when no env groups are in use)" % (len(mixed), one[s], two[s], s), [list(one[s]), list(two[s])])
    for bad in ("", None):
        B.case(("suffix", "no-env", repr(bad)))
        block.p.xsType = "A"
        block.p._p_envGroup = bad
        try:
            suf = block.getMicroSuffix()
            check(False, "suffix.no-env", "a block without env group must raise RuntimeError; got %r" % suf, repr(bad))
        except RuntimeError:
            pass
        except Exception as e:  # noqa: BLE001
            check(False, "suffix.no-env", "a block without env group must raise RuntimeError; got %r" % e, repr(bad))
    block.p.envGroup = "A"


# ================================================================================================ independent oracles
def comps(b):
    return list(b)


def homog(b, nucs=None):
    """Block-homogenised number densities by a naive walk: sum_c n_c V_c / V_block."""
    vol = b.getVolume()
    out = {}
    for c in b:
        v = c.getVolume()
        for nuc, n in c.p.numberDensities.items():
            out[nuc] = out.get(nuc, 0.0) + n * v
    out = {k: v / vol for k, v in out.items()}
    if nucs is not None:
        return {n: out.get(n, 0.0) for n in nucs}
    return out


def nucTempTerms(b, nuc):
    """(sum_c n V T, sum_c n V) of a nuclide in a block; a nuclide listed with zero density counts as trace (documented)."""
    nvt = nv = 0.0
    for c in b:
        if nuc in c.p.numberDensities:
            n = c.p.numberDensities[nuc] or TRACE_NUMBER_DENSITY
            v = c.getVolume()
            nvt += n * v * c.temperatureInC
            nv += n * v
    return nvt, nv


def blockNucTemp(b, nuc):
    nvt, nv = nucTempTerms(b, nuc)
    return nvt / nv if nv != 0 else 0.0  # the defining ratio whenever it exists (net n*V may be negative for an overlapped bond)


def eligible(b, validTypes):
    if not validTypes:
        return True
    for t in validTypes:
        f = Flags.fromString(t)
        if (b.p.flags & f) == f:
            return True
    return False


def weightOf(b, param):
    """Documented weight: weighting parameter (1 when absent or zero) x volume."""
    w = 1.0
    if param:
        w = b.p[param] or 1.0
    return w * (b.getVolume() or 1.0)


def expectedEnv(b, buBounds, tempBounds, isotope="U238"):
    """Index of the first burnup bound >= burnup and of the first temperature bound >= nuclide temperature."""
    bu = buBounds + [float("inf")]
    tb = tempBounds + [float("inf")]
    if len(bu) == 1 and len(tb) == 1:
        return None  # single group: the env group of the block is left alone
    i = next(k for k, u in enumerate(bu) if b.p.percentBu <= u)
    j = 0
    if len(tb) > 1 and isotope:
        T = blockNucTemp(b, isotope)
        j = next(k for k, u in enumerate(tb) if T <= u)
    num = j * len(bu) + i
    letters = xsgm._ALLOWABLE_XS_TYPE_LIST
    return letters[num] if num < len(letters) else "#%d" % num


def snapBlock(b, withEnv=True):
    p = {}
    for pd in b.p.paramDefs:
        if not withEnv and pd.name in ("envGroup", "envGroupNum"):
            continue
        try:
            v = b.p[pd.name]
        except Exception as e:  # noqa: BLE001
            v = "<%s>" % type(e).__name__
        p[pd.name] = v.tolist() if isinstance(v, np.ndarray) else v if isinstance(v, (int, float, str, bool, type(None), list, tuple)) else repr(v)
    cs = []
    for c in b:
        cs.append([c.name, dict(c.p.numberDensities), c.temperatureInC, c.getVolume(), repr(c.p.flags), c.p.mult])
    return {"name": b.name, "params": p, "components": cs, "n": len(b), "parent": id(b.parent)}


def snapDiff(a, b):
    out = []
    for k in a["params"]:
        if repr(a["params"][k]) != repr(b["params"].get(k)):
            out.append("param %s: %r -> %r" % (k, a["params"][k], b["params"].get(k)))
    if a["n"] != b["n"] or a["parent"] != b["parent"] or a["name"] != b["name"]:
        out.append("structure")
    for ca, cb in zip(a["components"], b["components"]):
        if ca != cb:
            out.append("component %s" % ca[0])
    return out[:6]


# ================================================================================================ block sets
STATE = {}


def setup():
    from armi.reactor.tests.test_reactors import loadTestReactor

    o, r = loadTestReactor()
    runLog.setVerbosity(100)
    STATE["o"], STATE["r"] = o, r
    STATE["nucs"] = list(r.blueprints.allNuclidesInProblem)
    fuel = r.core.getBlocks(Flags.FUEL)
    same = [b for b in fuel[3:] if b.getType() == "fuel" and len(b) == len(fuel[3]) and abs(b.getVolume() - fuel[3].getVolume()) < 1e-9][:30]
    other = [b for b in r.core.getBlocks() if not b.hasFlags(Flags.FUEL)]
    byType = {}
    for b in other:
        byType.setdefault(b.getType(), b)
    STATE["pools"] = {"same": same, "fuel": fuel[:3] + same[:6] + [b for b in fuel if b.getType() != "fuel"][:4], "mixed": same[:5] + fuel[:2] + list(byType.values())}
    B.extra["block_types_in_pools"] = sorted({b.getType() for p in STATE["pools"].values() for b in p})


def makeBlocks(case):
    import random

    R = random.Random(case["seed"])
    pool = STATE["pools"][case["pool"]]
    blocks = []
    common = None
    for i in range(case["n"]):
        t = pool[R.randrange(len(pool))]
        if case.get("agree"):
            if common is None:
                common = makeBlocks(dict(case, agree=False, n=1))[0]
            b = copy.deepcopy(common)
        else:
            b = copy.deepcopy(t)
            b.p.percentBu = R.choice([0.0, R.uniform(0, 45), R.uniform(0, 45)])
            b.p.massHmBOL = (b.p.massHmBOL or 0.0) * R.uniform(0.5, 1.5)
            if R.random() < 0.6:
                b.setHeight(b.getHeight() * R.uniform(0.4, 2.0))  # volumes (hence weights) differ between members
            if case.get("overlap"):
                # the fuel is wider than the clad's bore (hot): the sodium bond between them gets a NEGATIVE area / volume / mass,
                # which armi admits for non-solid materials (Component._checkNegativeArea); same sign in every member
                bond = [c for c in b if c.name == "bond"]
                if bond and b.getComponent(Flags.FUEL) is not None:
                    b.getComponent(Flags.FUEL).setDimension("od", bond[0].getDimension("od") * R.uniform(1.002, 1.02))
                    b.clearCache()
            for c in b:
                nd = {}
                for n, d in c.p.numberDensities.items():
                    nd[n] = 0.0 if R.random() < 0.03 else d * R.uniform(0.3, 1.7)
                c.setNumberDensities(nd)
                c.temperatureInC = R.uniform(550, 950) if c.hasFlags(Flags.FUEL) else R.uniform(350, 560)
        b.name = "K%03d" % i
        b.p.xsType = R.choice(case["types"])
        b.p.envGroup = "A"
        mode = case["flux"]
        if mode == "zero":
            b.p.flux = 0.0
        elif mode == "positive":
            b.p.flux = 10 ** R.uniform(12, 15)
        else:
            b.p.flux = 0.0 if (i == 0 or (i > 1 and R.random() < 0.4)) else 10 ** R.uniform(12, 15)
        blocks.append(b)
    return blocks


def makeSettings(case):
    # the settings coerce the bounds to integers; the case's (possibly fractional) bounds are given to the manager directly
    new = {"buGroups": [max(1, int(math.ceil(x))) for x in case["buBounds"]] or [100], "tempGroups": [max(1, int(math.ceil(x))) for x in case["tempBounds"]],
           "xsBlockRepresentation": case["repr"] if not case["repr"].startswith("Component") else "Average",
           "disableBlockTypeExclusionInXsGeneration": case["valid"] is None}
    xs = {}
    for t in case["types"]:
        if case["repr"].startswith("Component"):
            d = {"geometry": "1D cylinder", "blockRepresentation": "ComponentAverage1DCylinder", "ductHeterogeneous": bool(case.get("ductHet"))}
        else:
            d = {"geometry": "0D", "blockRepresentation": case["repr"], "averageByComponent": bool(case.get("byComponent"))}
        if case["valid"] is not None:
            d["validBlockTypes"] = list(case["valid"])
        xs[t + "A"] = d
    new[CONF_CROSS_SECTION] = xs
    cs = settings.Settings().modified(newSettings=new)
    cs[CONF_CROSS_SECTION].setDefaults(new["xsBlockRepresentation"], new["disableBlockTypeExclusionInXsGeneration"])
    return cs


CLASS_OF = {
    "Median": xsgm.MedianBlockCollection,
    "Average": xsgm.AverageBlockCollection,
    "FluxWeightedAverage": xsgm.FluxWeightedAverageBlockCollection,
    "ComponentAverage1DCylinder": xsgm.CylindricalComponentsAverageBlockCollection,
}


def sortedComps(b):
    return sorted(b.getComponents())


def similar(cands):
    ref = [c.p.flags for c in sortedComps(cands[0])]
    return all([c.p.flags for c in sortedComps(b)] == ref for b in cands)


def repValues(case, cls, cands, members, param):
    """Independent expectation for an averaged representative: dict of named quantities."""
    nucs = STATE["nucs"]
    w = [weightOf(b, param) for b in cands]
    W = sum(w)
    out = {"dens": {}, "temp": {}, "range": {}}
    if cls in (xsgm.CylindricalComponentsAverageBlockCollection, xsgm.CylindricalComponentsDuctHetAverageBlockCollection):
        lists = [sortedComps(b) for b in cands]
        for k in range(len(lists[0])):
            cs_k = [l[k] for l in lists]
            names = sorted(set().union(*[set(c.getNuclides()) for c in cs_k]))
            aw = [wi * c.getArea() for wi, c in zip(w, cs_k)]
            for n in names:
                vals = [c.p.numberDensities.get(n, 0.0) for c in cs_k]
                out["dens"][k, n] = sum(a * v for a, v in zip(aw, vals)) / sum(aw) if sum(aw) != 0 else 0.0  # weights of one sign (negative for an overlapped gap): still a mean
                out["range"][k, n] = (min(vals), max(vals))
        out["mode"] = "component"
    elif case.get("byComponent") and cls is not xsgm.MedianBlockCollection and similar(cands):
        lists = [sortedComps(b) for b in cands]
        out["ctemp"] = {}
        for k in range(len(lists[0])):
            cs_k = [l[k] for l in lists]
            for n in nucs:
                vals = [c.p.numberDensities.get(n, 0.0) for c in cs_k]
                out["dens"][k, n] = sum(wi * v for wi, v in zip(w, vals)) / W
                out["range"][k, n] = (min(vals), max(vals))
            # documented: block weight without its volume part (height as proxy) x component mass
            wh = [wi / b.getHeight() for wi, b in zip(w, cands)]
            mass = [c.getMass() for c in cs_k]
            den = sum(a * m for a, m in zip(wh, mass))
            temps = [c.temperatureInC for c in cs_k]
            out["ctemp"][k] = (sum(a * m * t for a, m, t in zip(wh, mass, temps)) / den) if den != 0 else sum(temps) / len(temps)
            out["range"]["T", k] = (min(temps), max(temps))
        out["mode"] = "component"
    else:
        hs = [homog(b, nucs) for b in cands]
        for n in nucs:
            vals = [h[n] for h in hs]
            out["dens"][n] = sum(wi * v for wi, v in zip(w, vals)) / W
            out["range"][n] = (min(vals), max(vals))
        out["mode"] = "block"
    for n in nucs:
        terms = [nucTempTerms(b, n) for b in cands]
        nvt = sum(wi * t[0] for wi, t in zip(w, terms))
        nv = sum(wi * t[1] for wi, t in zip(w, terms))
        out["temp"][n] = nvt / nv if nv != 0 else 0.0  # the defining ratio whenever it exists (the code tests == 0.0)
        ts = [t[0] / t[1] for t in terms if t[1] != 0]
        out["range"]["T", n] = (min(ts), max(ts)) if ts else (0.0, 0.0)
        if any(t[1] < 0 for t in terms):
            # a member in which the nuclide sits mostly in a component of NEGATIVE volume (overlapped bond): the weights
            # n x V of the members then differ in sign, the mean is not a convex combination and no range follows from it
            # (if they are all negative it is one again)
            ts = [t[0] / t[1] for t in terms if t[1] < 0]
            out["range"]["T", n] = (min(ts), max(ts)) if all(t[1] < 0 for t in terms) else (-math.inf, math.inf)

    def hmMean(blocks):
        hw = [(b.p.massHmBOL or 0.0) * weightOf(b, param) / b.getVolume() for b in blocks]
        tot = sum(hw)
        return (sum(h * b.p.percentBu for h, b in zip(hw, blocks)) / tot if tot > 0 else 0.0), [b.p.percentBu for h, b in zip(hw, blocks) if h > 0]

    out["bu"], contrib = hmMean(cands)
    out["buAll"], _ = hmMean(members)
    out["range"]["bu"] = (min(contrib), max(contrib)) if contrib else (0.0, 0.0)
    return out


def measure(rep, coll, exp):
    """The same quantities read off the representative block."""
    got = {"dens": {}, "temp": dict(coll.avgNucTemperatures), "bu": rep.p.percentBu}
    if exp["mode"] == "component":
        cs = sortedComps(rep)
        for (k, n) in exp["dens"]:
            got["dens"][k, n] = cs[k].p.numberDensities.get(n, 0.0)
        if "ctemp" in exp:
            got["ctemp"] = {k: cs[k].temperatureInC for k in exp["ctemp"]}
    else:
        got["dens"] = homog(rep, STATE["nucs"])
    return got


CONSISTENT_NUCS = {"PU239", "U238", "U235", "U234", "FE56", "NA23", "O16"}


def consistent(cands):
    """Documented precondition of the cylindrical option: same number of components, multiplicities and key nuclides."""
    ref = sortedComps(cands[0])
    for b in cands[1:]:
        cs = sortedComps(b)
        if len(cs) != len(ref):
            return False
        for c, rc in zip(cs, ref):
            if c.p.mult != rc.p.mult or (set(c.getNuclides()) ^ set(rc.getNuclides())) & CONSISTENT_NUCS:
                return False
    return True


def inRange(v, lohi):
    lo, hi = lohi
    tol = 1e-9 * max(abs(lo), abs(hi)) + 1e-300
    return lo - tol <= v <= hi + tol


def compareRep(tag, exp, got, inp, size, ranges=True):
    """Check measured quantities against the independent expectation; ids under rep.<tag>.*"""
    bad = [(k, got["dens"].get(k), v) for k, v in exp["dens"].items() if not close(got["dens"].get(k, 0.0), v)]
    check(not bad, "rep.%s.density" % tag, "number densities are not the weight-normalised means of the eligible members': %s" % bad[:3], inp, size)
    if ranges:
        bad = [(k, got["dens"].get(k), exp["range"][k]) for k in exp["dens"] if not inRange(got["dens"].get(k, 0.0), exp["range"][k])]
        check(not bad, "rep.%s.density-out-of-range" % tag, "number densities outside [min,max] of the members': %s" % bad[:3], inp, size)
    bad = [(n, got["temp"].get(n), v) for n, v in exp["temp"].items() if not close(got["temp"].get(n, 0.0), v)]
    check(not bad, "rep.%s.nuclide-temperature" % tag, "nuclide temperatures are not the weighted means of the members': %s" % bad[:3], inp, size)
    if ranges:
        bad = [(n, got["temp"].get(n), exp["range"]["T", n]) for n in exp["temp"] if not inRange(got["temp"].get(n, 0.0), exp["range"]["T", n])]
        check(not bad, "rep.%s.nuclide-temperature-out-of-range" % tag, "nuclide temperatures outside [min,max] of the members': %s" % bad[:3], inp, size)
    if "ctemp" in exp:
        bad = [(k, got["ctemp"][k], v) for k, v in exp["ctemp"].items() if not close(got["ctemp"][k], v)]
        check(not bad, "rep.%s.component-temperature" % tag, "component temperatures are not the (weight x mass)-weighted means: %s" % bad[:3], inp, size)
        bad = [(k, got["ctemp"][k]) for k in exp["ctemp"] if not inRange(got["ctemp"][k], exp["range"]["T", k])]
        check(not bad, "rep.%s.component-temperature-out-of-range" % tag, "component temperatures outside [min,max]: %s" % bad[:3], inp, size)
    if close(got["bu"], exp["bu"]):
        pass
    elif close(got["bu"], exp["buAll"]):
        report("rep.burnup.includes-ineligible-members", "averaged burnup %r is the heavy-metal-weighted mean over ALL members (%r), not over the eligible ones (%r)" % (got["bu"], exp["buAll"], exp["bu"]), inp, size)
    else:
        report("rep.%s.burnup" % tag, "averaged burnup %r is not the heavy-metal-weighted mean %r" % (got["bu"], exp["bu"]), inp, size)
    if ranges and close(got["bu"], exp["bu"]):
        check(inRange(got["bu"], exp["range"]["bu"]), "rep.%s.burnup-out-of-range" % tag, "burnup outside [min,max]", inp, size)


def sameValues(a, b):
    return all(close(a["dens"].get(k, 0.0), v) for k, v in b["dens"].items()) and all(close(a["temp"].get(k, 0.0), v) for k, v in b["temp"].items()) and close(a["bu"], b["bu"])


def newCollection(coll):
    c = type(coll)(coll.allNuclidesInProblem, validBlockTypes=None, averageByComponent=coll.averageByComponent)
    c._validRepresentativeBlockTypes = coll._validRepresentativeBlockTypes
    return c


def runCase(case, sample=False):
    r = STATE["r"]
    inp = dict(case)
    size = (case["n"], len(case["types"]), len(case["buBounds"]) + len(case["tempBounds"]))
    B.case(json.dumps(case, sort_keys=True), inp if sample else None)
    blocks = makeBlocks(case)
    cs = makeSettings(case)
    cls = CLASS_OF[case["repr"]]
    if case.get("ductHet") and case["repr"].startswith("Component"):
        cls = xsgm.CylindricalComponentsDuctHetAverageBlockCollection
    param = "flux" if case["repr"] == "FluxWeightedAverage" else None
    m = xsgm.CrossSectionGroupManager(r, cs)
    m._setBuGroupBounds(list(case["buBounds"]) or [100])
    m._setTempGroupBounds(list(case["tempBounds"]))
    expEnv = {}
    for b in blocks:
        e = expectedEnv(b, list(case["buBounds"]) or [100], list(case["tempBounds"]))
        expEnv[id(b)] = b.p.envGroup if e is None else e
    r.core.getBlocks = lambda *a, **k: list(blocks)
    try:
        try:
            groups = m.makeCrossSectionGroups()
        except Exception as e:  # noqa: BLE001
            report("group.raised", "makeCrossSectionGroups raised %s: %s" % (type(e).__name__, str(e)[:200]), inp, size)
            return
        # ---- partition
        suffixes = set()
        for b in blocks:
            exp = b.p.xsType + expEnv[id(b)]
            suffixes.add(exp)
            check(b.p.envGroup == expEnv[id(b)], "group.env", "block with burnup %r / U238 temperature %r got env group %r, expected %r" % (b.p.percentBu, blockNucTemp(b, "U238"), b.p.envGroup, expEnv[id(b)]), inp, size)
            holders = [k for k, g in groups.items() for x in g if x is b]
            check(holders == [exp], "group.partition", "block %s (type %r, env %r) must be in exactly the group %r; found in %s" % (b.name, b.p.xsType, expEnv[id(b)], exp, holders), inp, size)
        bpNames = {x.name for a in r.blueprints.assemblies.values() for x in a}
        ids = {id(b) for b in blocks}
        for k, g in groups.items():
            check(all(x.getMicroSuffix() == k for x in g), "group.key", "group %r holds blocks with another suffix" % k, inp, size)
            foreign = [x for x in g if id(x) not in ids]
            check(all(x.name in bpNames for x in foreign), "group.foreign-member", "group %r holds blocks that are neither core blocks nor blueprint blocks" % k, inp, size)
            check(not foreign or k not in suffixes, "group.blueprint-block-joins-core-group", "group %r of core blocks also holds %d blocks that exist only in the blueprints (their env group was refreshed after the 'group is missing' test)" % (k, len(foreign)), inp, size)
            if k[0] in case["types"]:
                check(type(g) is cls, "group.collection-type", "group %r is a %s, the settings ask for %s" % (k, type(g).__name__, cls.__name__), inp, size)
        # ---- representatives, group by group
        direct = {}
        refused = set()
        inconsistent = set()
        cyl = case["repr"].startswith("Component")
        for k, g in groups.items():
            if k[0] not in case["types"]:
                continue
            members = list(g)
            allCore = all(id(x) in ids for x in members)
            cands = [b for b in members if eligible(b, case["valid"])]
            got = g.getCandidateBlocks()
            check(len(got) == len(cands) and all(x is y for x, y in zip(got, cands)), "rep.candidates", "candidate blocks of %r are not exactly the members of a valid block type" % k, inp, size)
            if not cands:
                continue
            ws = [b.p[param] for b in cands] if param else [0.0] * len(cands)
            before = [snapBlock(b) for b in blocks]
            try:
                rep = g.createRepresentativeBlock()
                err = None
            except Exception as e:  # noqa: BLE001
                rep, err = None, e
            after = [snapBlock(b) for b in blocks]
            d = [(a["name"], snapDiff(a, b2)) for a, b2 in zip(before, after) if snapDiff(a, b2)]
            check(not d, "core.changed", "creating the representative of %r changed core blocks: %s" % (k, d[:3]), inp, size)
            if any(ws) and not all(ws):
                refused.add(k)
                B.extra["mixed_weight_refusals_checked"] = B.extra.get("mixed_weight_refusals_checked", 0) + 1
                check(isinstance(err, ValueError), "weights.mixed-accepted", "a mixture of zero and non-zero weights must be refused with ValueError; got %r" % (err if err else "a representative block"), inp, size)
                continue
            if cyl and not consistent(cands):
                inconsistent.add(k)
                check(err is None or isinstance(err, ValueError), "rep.cylinder.inconsistent-wrong-error", "component-wise inconsistent members may only be refused with ValueError; got %r" % err, inp, size)
                B.extra["cylinder_inconsistent_groups_skipped"] = B.extra.get("cylinder_inconsistent_groups_skipped", 0) + 1
                continue
            if not check(err is None, "rep.raised", "createRepresentativeBlock of %r raised %s: %s" % (k, type(err).__name__, str(err)[:200]), inp, size):
                continue
            check(all(rep is not b for b in members), "rep.is-a-member", "the representative must be a new block, not a member", inp, size)
            if cls is xsgm.MedianBlockCollection:
                order = sorted(cands, key=lambda b: (b.p.percentBu * weightOf(b, None), b.name))
                med = order[len(order) // 2]
                hr = homog(rep)
                twins = [b for b in cands if homog(b) == hr and b.p.percentBu == rep.p.percentBu and b.name == rep.name]
                if not twins:
                    report("rep.median.not-a-member-copy", "the median representative is not a copy of an eligible member", inp, size)
                elif med not in twins:
                    report("rep.median.wrong-member", "the representative copies %s (weighted burnup %r), the median weighted burnup is held by %s (%r of %s)" % (twins[0].name, twins[0].p.percentBu * weightOf(twins[0], None), med.name, med.p.percentBu * weightOf(med, None), [round(b.p.percentBu * weightOf(b, None), 3) for b in order]), inp, size)
                expT = {n: blockNucTemp(med, n) for n in STATE["nucs"]}
                bad = [(n, g.avgNucTemperatures.get(n), v) for n, v in expT.items() if not close(g.avgNucTemperatures.get(n, 0.0), v)]
                check(not bad, "rep.median.nuclide-temperature", "nuclide temperatures are not those of the median member: %s" % bad[:3], inp, size)
                direct[k] = {"dens": hr, "temp": dict(g.avgNucTemperatures), "bu": rep.p.percentBu}
                tag = "median"
                cov = B.extra.setdefault("representatives_checked", {})
                cov["median"] = cov.get("median", 0) + 1
            else:
                tag = "cylinder" if case["repr"].startswith("Component") else "flux" if param else "average"
                if case.get("byComponent"):
                    tag += "-by-component"
                exp = repValues(case, cls, cands, members, param)
                gotv = measure(rep, g, exp)
                cov = B.extra.setdefault("representatives_checked", {})
                cov[tag + "/" + exp["mode"]] = cov.get(tag + "/" + exp["mode"], 0) + 1
                if cls is xsgm.CylindricalComponentsDuctHetAverageBlockCollection:
                    exp["temp"] = {}  # temperatures of the duct-heterogeneous option are taken inside the duct only: not modelled here
                compareRep(tag, exp, gotv, inp, size)
                direct[k] = gotv
                if case.get("agree") and allCore:
                    one = repValues(case, cls, cands[:1], cands[:1], param)
                    if cls is xsgm.CylindricalComponentsDuctHetAverageBlockCollection:
                        one["temp"] = {}
                    check(sameValues(gotv, one), "rep.%s.common-value" % tag, "members agree but the representative differs from the common value", inp, size)
            # ---- every member duplicated / all weights rescaled: same representative
            for variant in ("duplicated", "rescaled"):
                if variant == "rescaled" and not param:
                    continue
                B.case(json.dumps(case, sort_keys=True) + k + variant)
                g2 = newCollection(g)
                c = 10 ** rng.uniform(-3, 3)
                for b in members:
                    for j in range(2 if variant == "duplicated" else 1):
                        b2 = copy.deepcopy(b)
                        b2.name = b.name + "~" * j
                        if variant == "rescaled":
                            b2.p.flux = b.p.flux * c
                        g2.append(b2)
                try:
                    rep2 = g2.createRepresentativeBlock()
                except Exception as e:  # noqa: BLE001
                    report("rep.%s.%s-raised" % (tag, variant), "with every member %s: %s: %s" % (variant, type(e).__name__, str(e)[:200]), inp, size)
                    continue
                if tag == "median":
                    got2 = {"dens": homog(rep2), "temp": dict(g2.avgNucTemperatures), "bu": rep2.p.percentBu}
                else:
                    got2 = measure(rep2, g2, exp)
                    if cls is xsgm.CylindricalComponentsDuctHetAverageBlockCollection:
                        got2["temp"] = {}
                ref = dict(direct[k], temp=direct[k]["temp"] if got2["temp"] else {})
                if len(cands) != len(members):  # burnup of a group with ineligible members: see rep.burnup.includes-ineligible-members
                    got2["bu"] = ref["bu"]
                check(sameValues(got2, ref) and sameValues(ref, got2), "rep.%s.%s-differs" % (tag, variant), "the representative changes when every member is %s" % variant, inp, size)
        # ---- through the manager
        before = [snapBlock(b, withEnv=False) for b in blocks]
        try:
            m.createRepresentativeBlocks()
            err = None
        except Exception as e:  # noqa: BLE001
            err = e
        after = [snapBlock(b, withEnv=False) for b in blocks]
        d = [(a["name"], snapDiff(a, b2)) for a, b2 in zip(before, after) if snapDiff(a, b2)]
        check(not d, "core.changed.manager", "createRepresentativeBlocks changed core blocks (other than their env group): %s" % d[:3], inp, size)
        if inconsistent:
            pass
        elif refused:
            check(isinstance(err, ValueError), "weights.mixed-accepted", "the manager must refuse mixed zero / non-zero weights with ValueError; got %r" % err, inp, size)
        elif check(err is None, "rep.manager-raised", "createRepresentativeBlocks raised %r" % err, inp, size):
            check(set(direct) <= set(m.representativeBlocks), "rep.manager-missing", "groups with eligible members lack a representative: %s" % sorted(set(direct) - set(m.representativeBlocks)), inp, size)
            for k, v in direct.items():
                if k in m.representativeBlocks and "mode" not in v:
                    pass
                if k in m.representativeBlocks:
                    check(close(m.representativeBlocks[k].p.percentBu, v["bu"]) and all(close(m.avgNucTemperatures[k].get(n, 0.0), t) for n, t in v["temp"].items()), "rep.manager-differs", "the manager's representative of %r differs from the collection's" % k, inp, size)
    finally:
        del r.core.getBlocks


# ================================================================================================ cases
def genCases():
    nmax = 40 if THOROUGH else 12
    total = 1500 if THOROUGH else 300
    cases = []
    # small systematic cases first (smallest input per violation id)
    seed = 0
    for rep in ("Median", "Average", "FluxWeightedAverage", "ComponentAverage1DCylinder"):
        for flux in ("positive", "zero", "mixed"):
            for valid in (None, ["fuel"]):
                for n in (2, 3):
                    seed += 1
                    cases.append({"seed": seed, "n": n, "pool": "same" if rep.startswith("Component") else "fuel", "types": ["A"], "buBounds": [], "tempBounds": [],
                                  "repr": rep, "byComponent": False, "ductHet": False, "valid": valid, "flux": flux, "agree": False})
    for byC in (True,):
        for rep in ("Average", "FluxWeightedAverage"):
            for pool in ("same", "mixed"):
                seed += 1
                cases.append({"seed": seed, "n": 3, "pool": pool, "types": ["A"], "buBounds": [], "tempBounds": [], "repr": rep, "byComponent": True, "ductHet": False, "valid": None, "flux": "positive", "agree": False})
    for valid in (["control"], ["fuel", "control"], ["shield"]):
        seed += 1
        cases.append({"seed": seed, "n": 6, "pool": "mixed", "types": ["A"], "buBounds": [], "tempBounds": [], "repr": "Average", "byComponent": False, "ductHet": False, "valid": valid, "flux": "positive", "agree": False})
    for rep in ("Average", "Median"):  # temperature groups move every core block out of the blueprints' group
        seed += 1
        cases.append({"seed": seed, "n": 1, "pool": "same", "types": ["A"], "buBounds": [], "tempBounds": [500], "repr": rep, "byComponent": False, "ductHet": False, "valid": None, "flux": "positive", "agree": False})
    for n in (2, 3, 4):
        seed += 1
        cases.append({"seed": seed, "n": n, "pool": "mixed", "types": ["A"], "buBounds": [], "tempBounds": [], "repr": "Average", "byComponent": False, "ductHet": False, "valid": ["control"], "flux": "positive", "agree": False})
    while len(cases) < total:
        seed += 1
        rep = rng.choice(["Median", "Average", "Average", "FluxWeightedAverage", "FluxWeightedAverage", "ComponentAverage1DCylinder"])
        cyl = rep.startswith("Component")
        pool = "same" if cyl else rng.choice(["same", "fuel", "mixed", "mixed"])
        bu = rng.choice([[], [], [10, 20], [3, 10, 30], [5.5], [1, 2, 3, 4, 5, 10, 15, 20, 30, 40]])
        tb = rng.choice([[], [], [], [600], [500, 700, 800]])
        valid = ["fuel"] if cyl else rng.choice([None, None, ["fuel"], ["fuel", "control"], ["control"], ["shield", "plenum"], ["fuel", "shield"]])
        cases.append({"seed": seed, "n": rng.randint(1, nmax), "pool": pool, "types": rng.choice([["A"], ["A", "B"], ["A", "B", "C"], ["B", "c"]]), "buBounds": bu, "tempBounds": tb,
                      "repr": rep, "byComponent": (not cyl and rep != "Median" and rng.random() < 0.5), "ductHet": cyl and rng.random() < 0.5, "valid": valid,
                      "flux": rng.choice(["zero", "positive", "positive", "mixed"]), "agree": rng.random() < 0.15})
        if pool == "same" and len(cases) % 5 == 0:
            cases[-1]["overlap"] = True  # every member has a sodium bond of negative area (drawn without consuming rng: the other cases are unchanged)
    return cases


def finish():
    for vid in sorted(FOUND):
        _size, what, inp = FOUND[vid]
        B.violation(vid, what, inp)
    B.extra["violation_counts"] = dict(sorted(COUNTS.items()))
    B.finish(exhaustive=False)


def main():
    here = os.getcwd()
    runLog.setVerbosity(100)
    with tempfile.TemporaryDirectory(prefix="c20_") as tmp:
        os.chdir(tmp)
        try:
            setup()
            if B.replay is not None:
                if B.replay.get("clause") == "label":
                    labelClause(copy.deepcopy(STATE["pools"]["same"][0]))
                else:
                    runCase(B.replay)
                print(json.dumps({"result": "fail" if FOUND else "pass", "violations": sorted(FOUND), "details": {k: v[1] for k, v in FOUND.items()}, "input": B.replay}, default=str))
                return
            t = time.time()
            try:
                labelClause(copy.deepcopy(STATE["pools"]["same"][0]))
            except Exception:  # noqa: BLE001
                report("label.harness-exception", traceback.format_exc()[-1500:], None)
            B.extra["t_labels"] = round(time.time() - t, 1)
            t = time.time()
            budget = 1000.0 if THOROUGH else 70.0
            cases = genCases()
            done = 0
            opts = set()
            c0 = time.thread_time()  # CPU seconds of this thread: independent of machine load
            for i, case in enumerate(cases):
                if time.thread_time() - c0 > budget:
                    break
                try:
                    runCase(case, sample=i in (0, 40, 60))
                except Exception:  # noqa: BLE001  a crash of the harness is reported, never swallowed
                    report("case.harness-exception", traceback.format_exc()[-1500:], case, (case["n"],))
                    if hasattr(STATE["r"].core, "__dict__") and "getBlocks" in STATE["r"].core.__dict__:
                        del STATE["r"].core.getBlocks
                done += 1
                opts.add((case["repr"], bool(case["byComponent"]), bool(case["ductHet"])))
            B.extra["cases_planned"] = len(cases)
            B.extra["cases_run"] = done
            B.extra["representation_options"] = sorted("%s%s%s" % (a, "+byComponent" if b else "", "+ductHet" if c else "") for a, b, c in opts)
            B.extra["not_available"] = ["ComponentAverage1DSlab (needs rectangular components; none in the hex test reactor)", "lumped fission products (test reactor blocks hold none)"]
            B.extra["t_cases"] = round(time.time() - t, 1)
        finally:
            os.chdir(here)
    finish()


main()
