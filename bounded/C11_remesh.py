"""C11 bounded tier: axial re-meshing of assemblies on the REAL armi code (nothing re-implemented).

Executable contract of property C11 wrapped around
    UniformMeshGeometryConverter.makeAssemWithUniformMesh / setAssemblyStateFromOverlaps / applyStateToOriginal,
    setNumberDensitiesFromOverlaps, ParamMapper                                   (armi/reactor/converters/uniformMesh.py)
    Assembly.getBlocksBetweenElevations / getBlockAtElevation / setBlockMesh, Block.setHeight (assemblies.py, blocks.py)
    UniformMeshGenerator._filterMesh / generateCommonMesh                          (uniformMesh.py)
    mathematics.resampleStepwise / average1DWithinTolerance                        (armi/utils/mathematics.py)

The oracle is the property statement, evaluated independently of the code under test: a naive walk over the cumulative
block heights gives the overlap of every (source block, destination block) pair; totals are plain sums; the reverse path
is a round trip.  Tolerance: 1e-9 relative to the assembly-wide magnitude of the quantity (armi drops overlaps below
1e-10 of a block, which is inside that tolerance); mesh elevations 1e-12.

A *case* is a JSON-able descriptor {"part": ..., ...} (seeds included) and can be re-run with --replay '<json>'.

parts and violation ids (stable; `<clause>[.<circumstance>]`, the circumstance is a feature of the input)
  remesh   makeAssemWithUniformMesh(source, mesh) for sources = one assembly of every design of 3 test reactors (optionally
           with seeded block heights) and generated pin assemblies (seeded block count, heights 0.5..80 cm, pin materials,
           density factors, nuclides present in one block only) x target meshes {identical, coarser, single, finer, uniform,
           shifted, near (points 1e-9 beside source boundaries), near-pair (target points 1e-9 apart), random}
           x seeded parameter profiles {constant, random, signed, some unset, all unset, zero, negative peaks} of volume-
           integrated / averaged / peak, scalar and array (list, tuple, ndarray, empty) parameters.
      remesh.exception  remesh.mesh  remesh.source-modified
      remesh.atoms.total  remesh.atoms.local  remesh.mass.total                 every nuclide, N x volume
      param.integrated.total  param.integrated.local                             volume-integrated parameters
      param.average.mean  param.average.constant  param.average.partial-unset    other parameters
      param.peak  param.peak.negative                                            peak parameters
      param.unset.invented                                                       no set source value overlapped: left alone
      back.param.* (same clauses, uniform -> original mesh through setAssemblyStateFromOverlaps, the reverse path of
      applyStateToOriginal)   back.integrated.restored   back.atoms.restored (uniform assembly re-meshed onto the original mesh)
  reactor  NeutronicsUniformMeshConverter.convert + seeded state on the uniform core + applyStateToOriginal
      reactor.exception  reactor.atoms.total  reactor.mesh.uniform  reactor.back.integrated.total  reactor.back.average.constant
      reactor.back.peak
  between  getBlocksBetweenElevations(zl, zu) / getBlockAtElevation(z) for seeded intervals inside the assembly
      between.exception  between.nonpositive-height  between.order  between.not-overlapping  between.height  between.sum
      at-elevation.block  at-elevation.outside
  filter   UniformMeshGenerator._filterMesh(points, minimum, anchors, preference)
      filter.anchors-too-close-accepted  filter.spurious-error  filter.exception  filter.increasing  filter.invented-point
      filter.thin-cell  filter.anchor-dropped  filter.preference  filter.bad-preference-accepted
  common   UniformMeshGenerator.generateCommonMesh on test reactors with seeded block heights and minimum sizes
      common.exception  common.spurious-error  common.increasing  common.invented-point  common.thin-cell  common.thin-cell.bottom
      common.anchor-dropped
  resample mathematics.resampleStepwise
      resample.sum  resample.avg  resample.none  resample.outside  resample.length  resample.exception  resample.input-mutated
      circumstances: .inside-one-bin (an output bin strictly inside one input bin)  .left-outside / .right-outside (an output
      bin sticks out of the input range on that side)  .ndarray-input (yin given as ndarray instead of list)
      .array-values (bin values are arrays)
  avg1d    mathematics.average1DWithinTolerance
      avg1d.exception  avg1d.identical  avg1d.all-within  avg1d.range  avg1d.not-a-consistent-mean  avg1d.nonphysical-accepted
  blockmesh Assembly.setBlockMesh(mesh, conserveMassFlag) / Block.setHeight(conserveMass=True)
      blockmesh.exception  blockmesh.heights  blockmesh.mass.conserve-all  blockmesh.mass.auto-fuel  blockmesh.mass.auto-below-fuel
      blockmesh.density.changed  setheight.mass

Not failures (counted in the JSON): `refused_thin_cell` = a target mesh with a cell thinner than 1e-6 cm refused with ValueError.
Bound: see B.bound.
"""
import copy
import itertools
import json
import math
import os
import random
import sys
import tempfile
import time
import traceback
import warnings

sys.path.insert(0, os.path.dirname(os.path.abspath(__file__)))
from common import Bounded, armi_ready

armi_ready()
import numpy as np
from armi import runLog
from armi.materials.material import Fluid
from armi.reactor.assemblies import HexAssembly
from armi.reactor import grids
from armi.reactor.blocks import HexBlock
from armi.reactor.components import DerivedShape
from armi.reactor.components.basicShapes import Circle, Hexagon
from armi.reactor.converters import uniformMesh as um
from armi.reactor.flags import Flags
from armi.reactor.tests.test_reactors import loadTestReactor
from armi.tests import TEST_ROOT
from armi.utils import mathematics

B = Bounded(
    rule="case = JSON descriptor; remesh: (source assembly = design of a test reactor [+ height seed] | generated pin assembly seed) x "
    "(target mesh kind, seed) x parameter-profile seed, every clause evaluated forward and on the reverse path; between: (source, "
    "interval) incl. boundary-aligned and 1e-9..1e-13 offsets; filter: (points, minimum, anchors, preference) incl. integer grids with "
    "many ties, clusters, anchors outside the points; resample: (xin, yin, xout, avg) incl. refinement, coarsening, shifts, bins "
    "outside, None and array values; distinct = distinct descriptor; non-trivial = target mesh differs from the source mesh "
    "(remesh) / at least one point removed or error expected (filter) / bins differ (resample)",
    bound="quick: 3 test reactors (13 assembly designs, as loaded and with 2 seeded height sets) + 20 generated assemblies (<= 9 blocks) x 9 mesh "
    "kinds x 1-2 seeds (~570 remesh cases), 2 reactor-level convert/applyStateToOriginal, ~3500 intervals, 1500 filter cases (<= 25 points), 24 common meshes, 2500 "
    "resampling cases (<= 8 bins), 400 averaging cases (<= 7 rows), 60 block-mesh changes. thorough: 120 generated assemblies and 3 height "
    "sets per design, 5 seeds per mesh kind (~6500 remesh cases), 12 reactor-level conversions, ~40000 intervals, 40000 filter cases, 400 "
    "common meshes, 60000 resampling cases, 10000 averaging cases, 1500 block-mesh changes. Heights 0.5-80 cm; only hex pin/test-reactor "
    "assemblies; target meshes always span exactly the assembly height.",
)
RTOL = 1e-9
MK = um.UniformMeshGeometryConverter.makeAssemWithUniformMesh
SET_STATE = um.UniformMeshGeometryConverter.setAssemblyStateFromOverlaps
counts = {}
B.extra["violation_counts"] = counts
B.extra["refused_thin_cell"] = 0
B.extra["skipped"] = 0
B.extra["parts"] = {}
B.extra["mesh_kinds"] = {}
B.extra["circumstances_seen"] = {}
_seen_in_case = set()


def V(vid, what, case, detail=None):
    """Record a violation: one stored report per id (the first), totals per id in violation_counts (cases in which it fired)."""
    key = (vid, id(case))
    if key in _seen_in_case:
        return
    _seen_in_case.add(key)
    counts[vid] = counts.get(vid, 0) + 1
    if counts[vid] == 1 or B.replay is not None:  # one report per id; appended directly: Bounded.violation() keeps only the first 20
        B.violations.append({"id": vid, "what": what, "input": {"case": case, "detail": detail}})


def check(cond, vid, what, case, detail=None):
    if not cond:
        V(vid, what, case, detail)
    return bool(cond)


def seen(name):
    B.extra["circumstances_seen"][name] = B.extra["circumstances_seen"].get(name, 0) + 1


def jf(x):
    """JSON-able rendering of values."""
    if x is None or isinstance(x, (str, bool, int)):
        return x
    if isinstance(x, (float, np.floating)):
        return float(x)
    if isinstance(x, np.integer):
        return int(x)
    if isinstance(x, np.ndarray):
        return jf(x.tolist())
    if isinstance(x, (list, tuple)):
        return [jf(v) for v in x]
    if isinstance(x, dict):
        return {str(k): jf(v) for k, v in x.items()}
    return repr(x)


# ------------------------------------------------------------------------------------------------ sources
REACTOR_INPUTS = {
    "smallest": dict(inputFileName="smallestTestReactor/armiRunSmallest.yaml"),
    "detailed": dict(inputFilePath=os.path.join(TEST_ROOT, "detailedAxialExpansion")),
    "full": dict(inputFilePath=TEST_ROOT),
}
_reactors = {}


def get_reactor(name):
    if name not in _reactors:
        o, r = loadTestReactor(**REACTOR_INPUTS[name])
        runLog.setVerbosity("error")
        _reactors[name] = (o, r)
    return _reactors[name]


def designs(name):
    _o, r = get_reactor(name)
    out = []
    for a in r.core:
        if a.getType() not in out:
            out.append(a.getType())
    return out


PIN_MATERIALS = ["UZr", "HT9", "B4C", "UraniumOxide", "Zr", "MgO", "Inconel600", "ThO2", "MOX", "Graphite"]
BLOCK_KINDS = ["grid plate", "shield", "fuel", "fuel", "control", "plenum", "reflector", "duct"]
EXTRA_NUCLIDES = ["PU239", "AM241", "XE135", "CS137", "B10", "U236"]
HEIGHT_CHOICES = [0.5, 1.0, 5.0, 10.0, 25.0, 25.625, 75.5, 80.0]


def gen_block(kind, mat, height, temp):
    """A pin-type hex block (input construction only; the same shape as armi's axial-expansion test blocks)."""
    b = HexBlock(kind, height=height)
    common = {"Tinput": 25.0, "Thot": temp}
    b.add(Circle(kind, mat, od=0.76, id=0.0, mult=127.0, **common))
    b.add(Circle("clad", "HT9", od=0.80, id=0.77, mult=127.0, **common))
    b.add(Hexagon("duct", "HT9", op=16.0, ip=15.3, mult=1.0, **common))
    b.add(DerivedShape("coolant", "Sodium", **common))
    b.add(Hexagon("intercoolant", "Sodium", op=17.0, ip=16.0, mult=1.0, **common))
    b.setType(kind)
    b.getVolumeFractions()
    return b


def gen_dummy(height, temp):
    b = HexBlock("dummy", height=height)
    b.add(Hexagon("dummy coolant", "Sodium", Tinput=25.0, Thot=temp, op=17.0, ip=0.0, mult=1.0))
    b.getVolumeFractions()
    b.setType("dummy")
    return b


def gen_assembly(seed):
    rng = random.Random(seed)
    n = rng.randint(1, 8)
    a = HexAssembly("generated")
    a.spatialGrid = grids.AxialGrid.fromNCells(numCells=1)
    a.spatialGrid.armiObject = a
    for k in range(n):
        kind = rng.choice(BLOCK_KINDS)
        h = rng.choice(HEIGHT_CHOICES) if rng.random() < 0.6 else round(rng.uniform(0.5, 60.0), rng.choice([1, 3, 9]))
        b = gen_block(kind, rng.choice(PIN_MATERIALS), h, rng.choice([25.0, 250.0, 450.0]))
        b.p.xsType = rng.choice("ABC")
        for c in b:
            if rng.random() < 0.5:
                c.changeNDensByFactor(rng.uniform(0.2, 2.0))
        if rng.random() < 0.5:
            b[rng.randrange(3)].setNumberDensity(rng.choice(EXTRA_NUCLIDES), rng.uniform(1e-6, 1e-3))
        a.add(b)
    a.add(gen_dummy(rng.choice(HEIGHT_CHOICES), 25.0))
    a.calculateZCoords()
    a.reestablishBlockOrder()
    return a


def perturb_heights(a, hseed):
    """Seeded new block heights with the same total (input construction: plain setHeight, no mass conservation)."""
    rng = random.Random(hseed)
    hs = [b.getHeight() for b in a]
    new = [h * rng.uniform(0.6, 1.4) for h in hs]
    f = sum(hs) / sum(new)
    for b, h in zip(a, new):
        b.setHeight(h * f)
    a.calculateZCoords()


def build_source(src):
    if src["kind"] == "generated":
        return gen_assembly(src["seed"])
    _o, r = get_reactor(src["reactor"])
    a0 = next(a for a in r.core if a.getType() == src["type"])
    a = copy.deepcopy(a0)
    if src.get("hseed") is not None:
        perturb_heights(a, src["hseed"])
    return a


def bounds(a):
    z = [0.0]
    for b in a:
        z.append(z[-1] + b.getHeight())
    return z


def naive_overlap(Z, zl, zu):
    return [max(0.0, min(zu, Z[i + 1]) - max(zl, Z[i])) for i in range(len(Z) - 1)]


def atoms(a):
    """nuclide -> sum over blocks of (block number density x block volume)."""
    d = {}
    for b in a:
        v = b.getVolume()
        for nuc, n in b.getNumberDensities().items():
            d[nuc] = d.get(nuc, 0.0) + float(n) * v
    return d


def atoms_by_block(a):
    out = []
    for b in a:
        v = b.getVolume()
        out.append({nuc: float(n) * v for nuc, n in b.getNumberDensities().items()})
    return out


# ------------------------------------------------------------------------------------------------ target meshes
MESH_KINDS = ["identical", "coarser", "single", "finer", "uniform", "shifted", "near", "near-pair", "random"]


def target_mesh(kind, Z, seed):
    rng = random.Random(seed)
    H = Z[-1]
    inner = list(Z[1:-1])
    if kind == "identical":
        pts = inner
    elif kind == "coarser":
        pts = [z for z in inner if rng.random() < 0.5]
    elif kind == "single":
        pts = []
    elif kind == "finer":
        pts = inner + [rng.uniform(0.0, H) for _ in range(rng.randint(1, 12))]
        if rng.random() < 0.5:
            pts += [0.5 * (Z[i] + Z[i + 1]) for i in range(len(Z) - 1)]
    elif kind == "uniform":
        k = rng.randint(2, 24)
        pts = [H * i / k for i in range(1, k)]
    elif kind == "shifted":
        gap = min(Z[i + 1] - Z[i] for i in range(len(Z) - 1))
        pts = [z + rng.uniform(-0.45, 0.45) * gap for z in inner]
    elif kind == "near":
        pts = [z + rng.choice([-1e-9, 1e-9, -1e-11, 1e-11, 0.0, 3e-10]) for z in inner]
    elif kind == "near-pair":
        pts = list(inner)
        for z in inner:
            if rng.random() < 0.6:
                pts.append(z + rng.choice([-1e-9, 1e-9]))
        if not inner or rng.random() < 0.3:
            z = rng.uniform(0.1 * H, 0.9 * H)
            pts += [z, z + 1e-9]
    else:
        pts = [rng.uniform(0.0, H) for _ in range(rng.randint(1, 15))]
    pts = sorted({float(p) for p in pts if 0.0 < p < H})
    return pts + [H]


# ------------------------------------------------------------------------------------------------ parameter profiles
PARAMS = {  # name -> (kind, is array)
    "power": ("integrated", False),
    "powerGamma": ("integrated", False),
    "mgFlux": ("integrated", True),
    "adjMgFlux": ("integrated", True),
    "pdens": ("average", False),
    "flux": ("average", False),
    "mgNeutronVelocity": ("average", True),
    "fluxPeak": ("peak", False),
    "ppdens": ("peak", False),
}
PROFILES = ["constant", "random", "signed", "some-unset", "all-unset", "zero"]
NG = 3


def make_profile(n, seed):
    """name -> (profile kind, [value per block])"""
    rng = random.Random(seed)
    out = {}
    for name, (kind, isarr) in PARAMS.items():
        prof = rng.choice(PROFILES)
        if kind == "peak" and prof == "signed":
            prof = "negative" if rng.random() < 0.3 else "random"
        cont = rng.choice(["list", "tuple", "ndarray"])

        def one(lo, hi):
            if not isarr:
                return rng.uniform(lo, hi) if rng.random() < 0.9 else float(rng.randint(0, 5))
            v = [rng.uniform(lo, hi) for _ in range(NG)]
            return v if cont == "list" else tuple(v) if cont == "tuple" else np.array(v)

        if prof == "constant":
            c = one(0.5, 10.0)
            vals = [copy.copy(c) for _ in range(n)]
        elif prof == "random":
            vals = [one(0.0, 100.0) for _ in range(n)]
        elif prof == "signed":
            vals = [one(-50.0, 50.0) for _ in range(n)]
        elif prof == "negative":
            vals = [one(-50.0, -1.0) for _ in range(n)]
        elif prof == "some-unset":
            vals = [one(0.0, 100.0) if rng.random() < 0.6 else ([] if isarr and rng.random() < 0.3 else None) for _ in range(n)]
        elif prof == "all-unset":
            vals = [None] * n
        else:
            vals = [one(0.0, 0.0) * 0.0 if not isarr else [0.0] * NG for _ in range(n)]
        out[name] = (prof, vals)
    return out


def is_set(v):
    return v is not None and not (isinstance(v, (list, tuple, np.ndarray)) and len(v) == 0)


def arr(v):
    return np.asarray(v, dtype=float)


def mag(v):
    return float(np.max(np.abs(arr(v)))) if is_set(v) else 0.0


def close(got, exp, scale, allow=0.0):
    if got is None:
        return False
    try:
        g, e = arr(got), arr(exp)
    except Exception:
        return False
    if g.shape != e.shape:
        return False
    return bool(np.all(np.abs(g - e) <= RTOL * scale + allow + 1e-300))


def check_mapping(prefix, case, src, dst, srcVals, before, pm):
    """The parameter clauses of the statement for one mapping src -> dst.

    srcVals: name -> values set on the source blocks; before: name -> values the destination blocks held before the mapping.
    """
    Zs, Zd = bounds(src), bounds(dst)
    Hs = [Zs[i + 1] - Zs[i] for i in range(len(Zs) - 1)]
    SIG = 1e-7  # an overlap this large certainly counts; armi drops overlaps below 1e-10 of the source block
    for name, (prof, vals) in srcVals.items():
        kind = PARAMS[name][0]
        scale = sum(mag(v) for v in vals) or 1.0
        got = [b.p[name] for b in dst]
        tot = None
        for j in range(len(Zd) - 1):
            ov = naive_overlap(Zs, Zd[j], Zd[j + 1])
            Hd = Zd[j + 1] - Zd[j]
            touched = [i for i, o in enumerate(ov) if o > 0.0]
            sig = [i for i in touched if ov[i] > SIG * min(1.0, Hs[i])]
            setsig = [i for i in sig if is_set(vals[i])]
            det = {"param": name, "profile": prof, "dest_block": j, "dest": [Zd[j], Zd[j + 1]], "got": jf(got[j]),
                   "sources": [[i, ov[i], jf(vals[i])] for i in touched]}
            if not [i for i in touched if is_set(vals[i])]:
                same = (got[j] is None and before[name][j] is None) or (
                    got[j] is not None and before[name][j] is not None and close(got[j], before[name][j], 0.0)
                )
                check(same, prefix + ".unset.invented", "no set source value overlaps the destination block but its value changed", case, det)
                continue
            if not setsig:
                B.extra["skipped"] += 1  # only vanishing overlaps carry a value: either answer is within tolerance
                continue
            # armi's documented filter drops overlaps below 1e-10 of the source block: what such overlaps carry is allowed to be missing
            allow = sum(mag(vals[i]) * ov[i] / Hd for i in touched if ov[i] <= 1.0000001e-10 * Hs[i])
            if kind == "integrated":
                exp = sum(arr(vals[i]) * (ov[i] / Hs[i]) for i in touched if is_set(vals[i]))
                det["expected"] = jf(exp)
                check(close(got[j], exp, scale), prefix + ".integrated.local", "volume-integrated value is not the sum of the overlapped source shares", case, det)
            elif kind == "average":
                if len(setsig) == len(sig) and all(is_set(vals[i]) or ov[i] <= SIG * min(1.0, Hs[i]) for i in touched):
                    exp = sum(arr(vals[i]) * ov[i] for i in touched if is_set(vals[i])) / Hd
                    det["expected"] = jf(exp)
                    if prof == "constant" and got[j] is not None and arr(got[j]).shape == arr(vals[sig[0]]).shape:
                        vs = [arr(vals[i]) for i in sig]
                        tolc = RTOL * scale / len(vals) + allow
                        okc = bool(np.all((arr(got[j]) >= np.min(vs, axis=0) - tolc) & (arr(got[j]) <= np.max(vs, axis=0) + tolc)))
                        check(okc, prefix + ".average.constant", "a constant profile did not stay constant", case, det)
                    check(close(got[j], exp, scale, allow), prefix + ".average.mean", "value is not the height-weighted mean of the overlapped source values", case, det)
                else:
                    seen("average-partial-unset")
                    vs = [arr(vals[i]) for i in touched if is_set(vals[i])] + [arr(vals[setsig[0]]) * 0.0]
                    lo, hi = np.min(vs, axis=0), np.max(vs, axis=0)
                    ok = got[j] is not None and arr(got[j]).shape == lo.shape and bool(np.all((arr(got[j]) >= lo - RTOL * scale) & (arr(got[j]) <= hi + RTOL * scale)))
                    check(ok, prefix + ".average.partial-unset", "value outside the range of the overlapped set source values (unset counted as 0 or left out)", case, det)
            else:
                m_all = max(float(vals[i]) for i in touched if is_set(vals[i]))
                m_sig = max(float(vals[i]) for i in setsig)
                det["expected"] = m_sig
                # overlaps below 1e-10 of a source block may or may not count: any overlapped value between the two maxima is right
                ok = got[j] is not None and m_sig <= float(got[j]) <= m_all and any(float(got[j]) == float(vals[i]) for i in touched if is_set(vals[i]))
                neg = m_sig < 0.0
                if neg:
                    seen("peak-negative")
                check(ok, prefix + (".peak.negative" if neg else ".peak"), "peak value is not the largest overlapped source value", case, det)
        if kind == "integrated":
            exp = sum(arr(v) for v in vals if is_set(v)) if any(is_set(v) for v in vals) else None
            for j in range(len(Zd) - 1):  # every destination block that received a share (blocks no set source touches keep their old value)
                if is_set(got[j]) and any(is_set(vals[i]) for i, o in enumerate(naive_overlap(Zs, Zd[j], Zd[j + 1])) if o > 0.0):
                    tot = arr(got[j]) if tot is None else tot + arr(got[j])
            if exp is not None:
                check(tot is not None and close(tot, exp, scale), prefix + ".integrated.total", "assembly total of a volume-integrated parameter not conserved", case,
                      {"param": name, "profile": prof, "source_total": jf(exp), "dest_total": jf(tot)})


def set_params(a, prof):
    for name, (_p, vals) in prof.items():
        for b, v in zip(a, vals):
            b.p[name] = copy.copy(v)


# ------------------------------------------------------------------------------------------------ part: remesh
def run_remesh(case):
    src = build_source(case["src"])
    Zs = bounds(src)
    H = Zs[-1]
    mesh = target_mesh(case["mesh"], Zs, case["mseed"])
    prof = make_profile(len(src), case["pseed"])
    set_params(src, prof)
    names = list(PARAMS)
    pm = um.ParamMapper([], names, src[0])
    a0 = atoms(src)
    ab0 = atoms_by_block(src)
    iso = sorted(n for n in a0 if n[-1].isdigit())  # element names (NA, MN) are ambiguous for getMass: it adds the isotopes
    mass0 = {nuc: src.getMass(nuc) for nuc in iso[:: max(1, len(iso) // 6)]}
    thin = min(b - a for a, b in zip([0.0] + mesh[:-1], mesh))
    rng = random.Random(case["mseed"])
    meshArg = np.array(mesh) if rng.random() < 0.5 else list(mesh)
    nontrivial = mesh != Zs[1:]
    try:
        new = MK(src, meshArg, paramMapper=pm, mapNumberDensities=True)
    except ValueError as e:
        if thin < 1e-6:
            B.extra["refused_thin_cell"] += 1
            return nontrivial
        V("remesh.exception", "makeAssemWithUniformMesh raised for a mesh spanning the assembly height", case, {"mesh": mesh, "error": repr(e)[:300]})
        return nontrivial
    except Exception as e:
        V("remesh.exception", "makeAssemWithUniformMesh raised for a mesh spanning the assembly height", case, {"mesh": mesh, "error": repr(e)[:300], "tb": traceback.format_exc()[-600:]})
        return nontrivial
    # the new assembly has the requested mesh, contiguous, same height
    Zn = bounds(new)
    ok = len(new) == len(mesh) and all(abs(a - b) <= 1e-12 * H for a, b in zip(Zn[1:], mesh))
    ok = ok and all(abs(b.p.zbottom - Zn[k]) <= 1e-12 * H and abs(b.p.ztop - Zn[k + 1]) <= 1e-12 * H for k, b in enumerate(new))
    if not check(ok, "remesh.mesh", "the new assembly does not have the requested mesh", case, {"mesh": mesh, "got": Zn}):
        return nontrivial
    check(bounds(src) == Zs and atoms(src) == a0, "remesh.source-modified", "the source assembly was changed by the mapping", case, None)
    # atoms of every nuclide: assembly total, and per destination block (= height-weighted mean of the densities)
    a1 = atoms(new)
    for nuc in sorted(set(a0) | set(a1)):
        s, n = a0.get(nuc, 0.0), a1.get(nuc, 0.0)
        check(abs(s - n) <= RTOL * abs(s) + 1e-300, "remesh.atoms.total", "number of atoms of a nuclide not conserved over the assembly", case,
              {"nuclide": nuc, "source": s, "new": n, "mesh": mesh})
    ab1 = atoms_by_block(new)
    for j in range(len(mesh)):
        ov = naive_overlap(Zs, Zn[j], Zn[j + 1])
        for nuc in a0:
            exp = sum(ab0[i].get(nuc, 0.0) * (ov[i] / (Zs[i + 1] - Zs[i])) for i in range(len(ov)) if ov[i] > 0.0)
            got = ab1[j].get(nuc, 0.0)
            if not check(abs(got - exp) <= RTOL * abs(a0[nuc]) + 1e-300, "remesh.atoms.local", "atoms of a nuclide in a new block differ from the overlapped shares of the source blocks", case,
                         {"nuclide": nuc, "dest_block": j, "dest": [Zn[j], Zn[j + 1]], "expected": exp, "got": got}):
                break
    for nuc, m0 in mass0.items():
        m1 = new.getMass(nuc)
        check(abs(m1 - m0) <= RTOL * abs(m0) + 1e-300, "remesh.mass.total", "mass of a nuclide not conserved over the assembly", case, {"nuclide": nuc, "source": m0, "new": m1})
    # parameters, forward
    defaults = {n: [pm.paramDefaults[n]] * len(new) for n in names}
    check_mapping("param", case, src, new, prof, defaults, pm)
    # reverse path: map the state of the uniform assembly back onto the original mesh
    fwd = {n: (prof[n][0], [copy.copy(b.p[n]) for b in new]) for n in names}
    for n in names:  # same profile kind only if it is still of that kind on the new mesh
        if prof[n][0] == "constant" and not all(is_set(v) for v in fwd[n][1]):
            fwd[n] = ("random", fwd[n][1])
    marker = {}
    for n in names:
        marker[n] = []
        for b in src:
            b.p[n] = None if PARAMS[n][1] else -777.0
            marker[n].append(b.p[n])
    try:
        SET_STATE(new, src, pm, mapNumberDensities=False)
    except Exception as e:
        V("remesh.exception", "setAssemblyStateFromOverlaps (reverse path) raised", case, {"mesh": mesh, "error": repr(e)[:300]})
        return nontrivial
    check(atoms(src) == a0, "remesh.source-modified", "the reverse parameter mapping changed the densities of the original assembly", case, None)
    check_mapping("back.param", case, new, src, fwd, marker, pm)
    for n in names:
        if PARAMS[n][0] != "integrated" or not any(is_set(v) for v in prof[n][1]):
            continue
        exp = sum(arr(v) for v in prof[n][1] if is_set(v))
        back = [b.p[n] for b in src]
        tot = sum(arr(v) for v in back if is_set(v)) if any(is_set(v) for v in back) else None
        sc = sum(mag(v) for v in prof[n][1]) or 1.0
        check(tot is not None and close(tot, exp, sc), "back.integrated.restored", "mapping the state back onto the original mesh does not restore the assembly total", case,
              {"param": n, "original_total": jf(exp), "restored_total": jf(tot)})
    try:
        again = MK(new, Zs[1:], mapNumberDensities=True)
        a2 = atoms(again)
        for nuc in sorted(a0):
            check(abs(a0[nuc] - a2.get(nuc, 0.0)) <= RTOL * abs(a0[nuc]) + 1e-300, "back.atoms.restored", "re-meshing back onto the original mesh does not restore the atoms of a nuclide", case,
                  {"nuclide": nuc, "original": a0[nuc], "restored": a2.get(nuc, 0.0)})
    except ValueError as e:
        if thin < 1e-6:
            B.extra["refused_thin_cell"] += 1
        else:
            V("remesh.exception", "re-meshing the uniform assembly back onto the original mesh raised", case, {"mesh": mesh, "error": repr(e)[:300]})
    return nontrivial


# ------------------------------------------------------------------------------------------------ part: reactor
def run_reactor(case):
    from armi.reactor.parameters import ParamLocation

    o, r0 = get_reactor(case["reactor"])
    r = copy.deepcopy(r0)
    rng = random.Random(case["seed"])
    for a in r.core:
        perturb_heights(a, rng.randrange(10 ** 6))
    r.core.updateAxialMesh()
    a0 = {a.getName(): atoms(a) for a in r.core}
    try:
        conv = um.NeutronicsUniformMeshConverter(cs=o.cs, calcReactionRates=False)
        conv.convert(r)
        u = conv.convReactor
        ref = bounds(u.core.refAssem)
        for a in u.core:
            check(all(abs(x - y) <= 1e-9 for x, y in zip(bounds(a), ref)) and len(a) == len(u.core.refAssem), "reactor.mesh.uniform", "converted assemblies do not share one mesh", case, a.getName())
            s = a0[a.getName()]
            n = atoms(a)
            for nuc in s:
                check(abs(s[nuc] - n.get(nuc, 0.0)) <= RTOL * abs(s[nuc]) + 1e-300, "reactor.atoms.total", "atoms of a nuclide not conserved by the core conversion", case,
                      {"assembly": a.getName(), "nuclide": nuc, "source": s[nuc], "uniform": n.get(nuc, 0.0)})
        conv._setParamsToUpdate("out")
        mapped = set(conv.paramMapper.blockParamNames)
        use = {n: k for n, (k, isarr) in PARAMS.items() if n in mapped}
        totals = {}
        peaks = {}
        for a in u.core:
            for k, b in enumerate(a):
                for n, kind in use.items():
                    if kind == "integrated":
                        v = [rng.uniform(0.0, 10.0) for _ in range(NG)] if PARAMS[n][1] else rng.uniform(0.0, 10.0)
                        totals[a.getName(), n] = totals.get((a.getName(), n), 0.0) + arr(v)
                    elif kind == "average":
                        v = [2.5] * NG if PARAMS[n][1] else 2.5
                    else:
                        v = 10.0 + (k % 3)
                        peaks.setdefault((a.getName(), n), []).append(v)
                    b.p[n] = v
        conv.applyStateToOriginal()
        for a in r.core:
            for n, kind in use.items():
                vals = [b.p[n] for b in a]
                if kind == "integrated":
                    exp = totals[a.getName(), n]
                    got = sum(arr(v) for v in vals if is_set(v))
                    check(close(got, exp, float(np.max(np.abs(exp))) * len(vals)), "reactor.back.integrated.total", "applyStateToOriginal does not conserve the assembly total", case,
                          {"assembly": a.getName(), "param": n, "uniform_total": jf(exp), "original_total": jf(got)})
                elif kind == "average":
                    check(all(is_set(v) and close(v, [2.5] * NG if PARAMS[n][1] else 2.5, 2.5) for v in vals), "reactor.back.average.constant", "a constant profile did not stay constant through applyStateToOriginal", case,
                          {"assembly": a.getName(), "param": n, "values": jf(vals)})
                else:
                    check(all(v in peaks[a.getName(), n] for v in vals), "reactor.back.peak", "a peak value after applyStateToOriginal is not one of the uniform-mesh values", case,
                          {"assembly": a.getName(), "param": n, "values": jf(vals)})
        B.extra["reactor_params_mapped"] = sorted(use)
    except Exception as e:
        V("reactor.exception", "convert / applyStateToOriginal raised", case, {"error": repr(e)[:300], "tb": traceback.format_exc()[-800:]})
    return True


# ------------------------------------------------------------------------------------------------ part: between
def intervals_for(Z, seed, n):
    rng = random.Random(seed)
    H = Z[-1]
    out = [(0.0, H)]
    offs = [0.0, 1e-9, -1e-9, 1e-11, -1e-11, 1e-13, -1e-13, 1e-6, -1e-6]
    for _ in range(n):
        mode = rng.choice(["random", "aligned", "near", "tiny", "inblock"])
        if mode == "random":
            zl, zu = sorted([rng.uniform(0, H), rng.uniform(0, H)])
        elif mode == "aligned":
            i, j = sorted(rng.sample(range(len(Z)), 2)) if len(Z) > 2 else (0, len(Z) - 1)
            zl, zu = Z[i], Z[j]
        elif mode == "near":
            i, j = sorted(rng.sample(range(len(Z)), 2)) if len(Z) > 2 else (0, len(Z) - 1)
            zl, zu = Z[i] + rng.choice(offs), Z[j] + rng.choice(offs)
        elif mode == "tiny":
            zl = rng.uniform(0, H)
            zu = zl + rng.choice([1e-9, 1e-7, 1e-5, 1e-3])
        else:
            k = rng.randrange(len(Z) - 1)
            zl, zu = sorted([rng.uniform(Z[k], Z[k + 1]), rng.uniform(Z[k], Z[k + 1])])
        zl, zu = max(0.0, zl), min(H, zu)
        if zl < zu:
            out.append((zl, zu))
    return out


def check_between(case, a, Z, zl, zu):
    H = Z[-1]
    tol = RTOL * H
    det = {"zl": zl, "zu": zu, "bounds": Z}
    try:
        res = a.getBlocksBetweenElevations(zl, zu)
    except Exception as e:
        V("between.exception", "getBlocksBetweenElevations raised for an interval inside the assembly", case, dict(det, error=repr(e)[:300]))
        return
    blocks = list(a)
    idx = [blocks.index(b) for b, _h in res]
    det["result"] = [[i, h] for i, (_b, h) in zip(idx, res)]
    check(all(h > 0.0 for _b, h in res), "between.nonpositive-height", "an overlap height is not positive", case, det)
    check(all(j == i + 1 for i, j in zip(idx, idx[1:])), "between.order", "blocks are not reported in order without gaps", case, det)
    ov = naive_overlap(Z, zl, zu)
    check(all(ov[i] > 0.0 for i in idx), "between.not-overlapping", "a reported block does not overlap the interval", case, det)
    check(all(abs(h - ov[i]) <= tol for i, (_b, h) in zip(idx, res)), "between.height", "a reported height is not the overlap of the block with the interval", case, det)
    check(abs(sum(h for _b, h in res) - (zu - zl)) <= tol, "between.sum", "overlap heights do not sum to the interval length", case, det)


def check_at(case, a, Z, z):
    H = Z[-1]
    blocks = list(a)
    try:
        b = a.getBlockAtElevation(z)
    except Exception as e:
        V("at-elevation.block", "getBlockAtElevation raised", case, {"z": z, "error": repr(e)[:200]})
        return
    if z <= 0.0 or z > H * (1 + 1e-9) + 1e-9:
        check(b is None, "at-elevation.outside", "a block is reported for an elevation outside the assembly", case, {"z": z, "bounds": Z})
        return
    if z > H:
        return
    exact = [k for k in range(len(Z) - 1) if Z[k] < z <= Z[k + 1]]
    near = [k for k in range(len(Z) - 1) if Z[k] - 1e-9 * H < z <= Z[k + 1] + 1e-9 * H]
    got = blocks.index(b) if b is not None else None
    check(got is not None and (got in exact or got in near), "at-elevation.block", "the block at an elevation is not the one with zbottom < z <= ztop", case,
          {"z": z, "bounds": Z, "got": got, "expected": exact})


def run_between(case):
    a = build_source(case["src"])
    Z = bounds(a)
    for zl, zu in intervals_for(Z, case["iseed"], case["n"]):
        check_between(case, a, Z, zl, zu)
    rng = random.Random(case["iseed"] + 1)
    H = Z[-1]
    zs = [0.0, -1.0, H, H + 1.0, H * 2] + list(Z[1:]) + [rng.uniform(0, H) for _ in range(case["n"])]
    zs += [z + d for z in Z[1:-1] for d in (1e-9, -1e-9, 1e-12, -1e-12)]
    for z in zs:
        check_at(case, a, Z, z)
    return True


# ------------------------------------------------------------------------------------------------ part: filter
GEN = um.UniformMeshGenerator(None, minimumMeshSize=None)


def filter_case(seed):
    rng = random.Random(seed)
    n = rng.randint(1, 25)
    style = rng.choice(["grid", "float", "cluster", "mixed"])
    if style == "grid":
        pts = [float(rng.randint(0, 40)) for _ in range(n)]
    elif style == "float":
        pts = [round(rng.uniform(0.0, 200.0), rng.choice([0, 1, 3, 12])) for _ in range(n)]
    elif style == "cluster":
        cs = [rng.uniform(0, 200) for _ in range(rng.randint(1, 4))]
        pts = [rng.choice(cs) + rng.choice([0.0, 1e-9, 0.01, 0.5, 1.0, 2.999, 3.0, 3.001]) * rng.choice([1, -1]) for _ in range(n)]
    else:
        pts = [float(rng.randint(0, 40)) if rng.random() < 0.5 else rng.uniform(0, 40) for _ in range(n)]
    m = rng.choice([0.0, 0.5, 1.0, 3.0, 3.0, 10.0, 30.0, 500.0, rng.uniform(0.01, 20.0)])
    uniq = sorted(set(pts))
    anchors = rng.sample(uniq, min(len(uniq), rng.choice([0, 0, 1, 2, 2, 3, 4])))
    if rng.random() < 0.2:
        anchors.append(rng.uniform(0, 200))  # an anchor that is not a mesh point
    rng.shuffle(anchors)
    return {"part": "filter", "mesh": pts, "min": m, "anchors": anchors, "pref": rng.choice(["bottom", "top"]), "container": rng.choice(["list", "set"])}


def run_filter(case):
    pts, m, anchors, pref = case["mesh"], case["min"], case["anchors"], case["pref"]
    P = sorted(set(pts))
    A = [p for p in P if p in anchors]
    mustRaise = any(abs(A[i + 1] - A[i]) < m for i in range(len(A) - 1))
    greedy = None
    if not A:
        order = P if pref == "bottom" else P[::-1]
        greedy = []
        for p in order:
            if not greedy or abs(p - greedy[-1]) >= m:
                greedy.append(p)
        greedy = sorted(greedy)
    arg = list(pts) if case.get("container", "list") == "list" else set(pts)
    keep = copy.copy(arg)
    try:
        res = GEN._filterMesh(arg, m, list(anchors), preference=pref)
    except ValueError as e:
        check(mustRaise, "filter.spurious-error", "ValueError although no two anchors among the points are closer than the minimum", case, repr(e)[:200])
        return bool(mustRaise)
    except Exception as e:
        V("filter.exception", "_filterMesh raised something else than ValueError", case, repr(e)[:200])
        return True
    if not check(not mustRaise, "filter.anchors-too-close-accepted", "two anchors closer than the minimum were accepted silently", case, {"result": jf(res), "anchors_in_mesh": A}):
        return True
    det = {"result": jf(res)}
    check(arg == keep, "filter.input-mutated", "the caller's point collection was modified", case, det)
    check(all(b > a for a, b in zip(res, res[1:])), "filter.increasing", "result is not strictly increasing", case, det)
    check(all(p in P for p in res), "filter.invented-point", "result contains a point that was not a candidate", case, det)
    check(all(abs(b - a) >= m for a, b in zip(res, res[1:])), "filter.thin-cell", "a cell is thinner than the minimum", case, det)
    check(all(p in res for p in A), "filter.anchor-dropped", "an anchor among the points was dropped", case, dict(det, anchors_in_mesh=A))
    if greedy is not None:
        check(list(res) == greedy, "filter.preference", "without anchors the kept points are not the ones the stated preference keeps", case, dict(det, expected=greedy))
    return len(res) != len(P)


def run_filter_badpref(case):
    try:
        GEN._filterMesh([1.0, 2.0], 0.5, [], preference=case["pref"])
        V("filter.bad-preference-accepted", "an unknown preference was accepted", case, None)
    except ValueError:
        pass
    except Exception as e:
        V("filter.exception", "_filterMesh raised something else than ValueError", case, repr(e)[:200])
    return True


# ------------------------------------------------------------------------------------------------ part: common mesh
def run_common(case):
    _o, r = get_reactor(case["reactor"])
    saved = [[b.getHeight() for b in a] for a in r.core]
    try:
        rng = random.Random(case["seed"])
        for a in r.core:
            if rng.random() < case["frac"]:
                hs = [b.getHeight() for b in a]
                new = [h * rng.uniform(0.85, 1.15) for h in hs]
                for b, h in zip(a, new):
                    b.setHeight(h)
                a.calculateZCoords()
        m = case["min"]
        g0 = um.UniformMeshGenerator(r, None)
        g0.generateCommonMesh()
        avg = [float(x) for x in g0._commonMesh]
        mats = set()
        fuelB, fuelT = [], []
        for flags in (Flags.FUEL, Flags.CONTROL):
            for a in r.core.getAssemblies(flags):
                bs = a.getBlocks(flags)
                if not bs:
                    continue
                mats.add(float(bs[0].p.zbottom))
                mats.add(float(bs[-1].p.ztop))
                if flags == Flags.FUEL:
                    fuelB.append(float(bs[0].p.zbottom))
                    fuelT.append(float(bs[-1].p.ztop))
        cand = set(avg) | mats
        ms = sorted(mats)
        closeMats = any(b - a < m for a, b in zip(ms, ms[1:])) if m is not None else False
        g = um.UniformMeshGenerator(r, m)
        try:
            g.generateCommonMesh()
        except ValueError as e:
            check(closeMats, "common.spurious-error", "ValueError although no two material boundaries are closer than the minimum", case, repr(e)[:300])
            return True
        res = [float(x) for x in g._commonMesh]
        det = {"mesh": res, "average_mesh": avg, "material_boundaries": ms}
        check(all(b > a for a, b in zip(res, res[1:])), "common.increasing", "common mesh not strictly increasing", case, det)
        if m is None:
            check(res == avg, "common.invented-point", "without a minimum size the common mesh is not the average mesh", case, det)
            return True
        check(all(p in cand for p in res), "common.invented-point", "common mesh contains a point that is neither an average-mesh point nor a fuel/control boundary", case, det)
        check(all(b - a >= m for a, b in zip(res, res[1:])), "common.thin-cell", "a cell of the common mesh is thinner than the minimum", case, det)
        check(res[0] >= m, "common.thin-cell.bottom", "the bottom cell [0, first point] is thinner than the minimum", case, det)
        if fuelB:
            check(min(fuelB) in res and max(fuelT) in res, "common.anchor-dropped", "the lowest fuel bottom / highest fuel top anchor is not in the common mesh", case,
                  dict(det, anchors=[min(fuelB), max(fuelT)]))
        return True
    except Exception as e:
        V("common.exception", "generateCommonMesh raised something else than ValueError", case, {"error": repr(e)[:300], "tb": traceback.format_exc()[-600:]})
        return True
    finally:
        for a, hs in zip(r.core, saved):
            for b, h in zip(a, hs):
                b.setHeight(h)
            a.calculateZCoords()


# ------------------------------------------------------------------------------------------------ part: resample
def resample_case(seed):
    rng = random.Random(seed)
    n = rng.randint(1, 8)
    if rng.random() < 0.5:
        xin = sorted(rng.sample(range(0, 30), n + 1))
        xin = [float(x) if rng.random() < 0.5 else x for x in xin]
    else:
        xin = sorted({round(rng.uniform(0, 30), 3) for _ in range(n + 1)})
        if len(xin) < 2:
            xin = [0.0, 1.0]
    n = len(xin) - 1
    vk = rng.choice(["float", "float", "int", "none", "array", "mixed"])

    def val():
        k = vk if vk != "mixed" else rng.choice(["float", "int", "array"])
        if k == "float":
            return round(rng.uniform(-20, 100), 3)
        if k == "int":
            return rng.randint(-5, 50)
        if k == "none":
            return None if rng.random() < 0.4 else round(rng.uniform(0, 100), 3)
        return [round(rng.uniform(0, 10), 2) for _ in range(2)]  # rendered as np.array when run

    yin = [val() for _ in range(n)]
    lo, hi = xin[0], xin[-1]
    mode = rng.choice(["same", "coarser", "finer", "shifted", "random", "outside-left", "outside-right", "outside-both", "disjoint", "inside-one"])
    if mode == "same":
        xout = list(xin)
    elif mode == "coarser":
        xout = [xin[0]] + [x for x in xin[1:-1] if rng.random() < 0.5] + [xin[-1]]
    elif mode == "finer":
        xout = sorted(set(list(xin) + [round(rng.uniform(lo, hi), 3) for _ in range(rng.randint(1, 8))]))
    elif mode == "shifted":
        xout = sorted({min(hi, max(lo, x + rng.uniform(-0.4, 0.4))) for x in xin} | {lo, hi})
    elif mode == "random":
        xout = sorted({round(rng.uniform(lo, hi), 3) for _ in range(rng.randint(2, 8))})
    elif mode == "outside-left":
        xout = sorted({lo - rng.uniform(0.5, 5), lo - rng.uniform(5, 9)} | {round(rng.uniform(lo, hi), 3) for _ in range(rng.randint(1, 4))})
    elif mode == "outside-right":
        xout = sorted({hi + rng.uniform(0.5, 5), hi + rng.uniform(5, 9)} | {round(rng.uniform(lo, hi), 3) for _ in range(rng.randint(1, 4))})
    elif mode == "outside-both":
        xout = sorted({lo - rng.uniform(0.5, 5), hi + rng.uniform(0.5, 5)} | {round(rng.uniform(lo, hi), 3) for _ in range(rng.randint(0, 4))})
    elif mode == "disjoint":
        xout = [hi + 1.0, hi + 2.0, hi + 4.0] if rng.random() < 0.5 else [lo - 4.0, lo - 2.0, lo - 1.0]
    else:
        k = rng.randrange(n)
        w = xin[k + 1] - xin[k]
        xout = [xin[0], xin[k] + 0.25 * w, xin[k] + 0.6 * w, xin[-1]] if rng.random() < 0.5 else [xin[k] + 0.2 * w, xin[k] + 0.5 * w, xin[k] + 0.9 * w]
    if len(xout) < 2:
        xout = [lo, hi]
    return {"part": "resample", "xin": xin, "yin": yin, "xout": xout, "avg": rng.random() < 0.5, "ndarray": vk in ("float", "int") and rng.random() < 0.15}


def run_resample(case):
    xin, xout, avg = case["xin"], case["xout"], case["avg"]
    yin0 = [np.array(v, dtype=float) if isinstance(v, list) else v for v in case["yin"]]
    yin = [v.copy() if isinstance(v, np.ndarray) else v for v in yin0]
    arg = np.array(yin, dtype=float) if case.get("ndarray") else yin
    # circumstance of the whole input (a feature of the input, first applicable)
    kind = ".ndarray-input" if case.get("ndarray") else ".array-values" if any(isinstance(v, np.ndarray) for v in yin0) else ".unset-values" if any(v is None for v in yin0) else ""
    if kind:
        seen("resample" + kind)
    scale = sum(mag(v) for v in yin0) or 1.0
    sticks = ".left-outside" if xout[0] < xin[0] < xout[-1] else ".right-outside" if xout[-1] > xin[-1] > xout[0] else ""
    try:
        with warnings.catch_warnings():
            warnings.simplefilter("ignore")
            yout = mathematics.resampleStepwise(list(xin), arg, list(xout), avg=avg)
    except Exception as e:
        V("resample.exception" + sticks + kind, "resampleStepwise raised", case, {"error": repr(e)[:200]})
        return True
    after = list(arg)
    same = all((a is None and b is None) or (a is not None and b is not None and np.array_equal(arr(a), arr(b))) for a, b in zip(after, yin0))
    if not check(same, "resample.input-mutated" + kind, "the caller's bin values were modified", case, {"before": jf(yin0), "after": jf(after), "yout": jf(yout)}):
        return True  # the values of later bins are consequences
    if not check(len(yout) == len(xout) - 1, "resample.length", "one value per output bin expected", case, {"yout": jf(yout)}):
        return True
    w = [xin[i + 1] - xin[i] for i in range(len(xin) - 1)]
    for j in range(len(xout) - 1):
        a, b = xout[j], xout[j + 1]
        if not b > a:
            continue
        ov = naive_overlap(xin, a, b)
        touched = [i for i, o in enumerate(ov) if o > 1e-12]
        circ = ""
        if a < xin[0] < b:
            circ = ".left-outside"
        elif b > xin[-1] > a:
            circ = ".right-outside"
        elif len(touched) == 1 and a > xin[touched[0]] and b < xin[touched[0] + 1]:
            circ = ".inside-one-bin"
        if circ:
            seen("resample" + circ)
        sfx = circ + kind
        det = {"out_bin": [a, b], "got": jf(yout[j]), "all": jf(yout)}
        if not touched:
            if not any(o > 0 for o in ov):
                check(yout[j] is not None and not hasattr(yout[j], "__len__") and yout[j] == 0, "resample.outside", "an output bin outside the input range must get 0", case, det)
            continue
        if any(yin0[i] is None for i in touched):
            check(yout[j] is None, "resample.none" + circ, "an output bin overlapping an unset input bin must be unset", case, det)
            continue
        if any(yin0[i] is None for i, o in enumerate(ov) if o > 0):
            continue  # vanishing overlap with an unset bin
        if not check(yout[j] is not None, "resample.none" + circ, "an output bin overlapping only set input bins must be set", case, det):
            continue
        g = np.asarray(yout[j], dtype=float)
        if not avg:
            exp = sum(arr(yin0[i]) * (ov[i] / w[i]) for i in touched)
            det["expected"] = jf(exp)
            check(close(g + 0.0 * exp, exp, scale), "resample.sum" + sfx, "avg=False: the value is not the sum of the overlapped shares of the input bins (integral not conserved)", case, det)
        else:
            covered = sum(ov[i] for i in touched)
            exp = sum(arr(yin0[i]) * ov[i] for i in touched) / covered
            exp0 = sum(arr(yin0[i]) * ov[i] for i in touched) / (b - a)  # the part outside counted as 0
            det["expected"] = jf(exp)
            ok = close(g + 0.0 * exp, exp, scale) or (circ in (".left-outside", ".right-outside") and close(g + 0.0 * exp, exp0, scale))
            check(ok, "resample.avg" + sfx, "avg=True: the value is not the length-weighted mean of the overlapped input bins", case, det)
    return list(xin) != list(xout)


# ------------------------------------------------------------------------------------------------ part: avg1d
def avg1d_case(seed):
    rng = random.Random(seed)
    rows, cols = rng.randint(1, 7), rng.randint(1, 6)
    base = [rng.uniform(1.0, 200.0) for _ in range(cols)]
    style = rng.choice(["identical", "tight", "outliers", "wide", "nonphysical"])
    vals = []
    for _ in range(rows):
        if style == "identical":
            vals.append(list(base))
        elif style == "tight":
            vals.append([x * (1 + rng.uniform(-0.03, 0.03)) for x in base])
        elif style == "outliers":
            f = rng.choice([1.0, 1.0, 1.0, 1.6, 0.5])
            vals.append([x * f * (1 + rng.uniform(-0.02, 0.02)) for x in base])
        elif style == "wide":
            vals.append([x * (1 + rng.uniform(-0.5, 0.5)) for x in base])
        else:
            vals.append([-x for x in base] if rng.random() < 0.7 else [x * 0.0 for x in base])
    return {"part": "avg1d", "vals": vals, "tol": rng.choice([0.2, 0.2, 0.05, 0.5]), "style": style}


def run_avg1d(case):
    vals = np.array(case["vals"], dtype=float)
    tol = case["tol"]
    keep = vals.copy()
    try:
        with warnings.catch_warnings():
            warnings.simplefilter("ignore")
            res = mathematics.average1DWithinTolerance(vals, tol) if tol != 0.2 else mathematics.average1DWithinTolerance(vals)
    except ValueError:
        mean = vals.mean(axis=0)
        allWithin = bool((mean > 0).all()) and bool((np.abs(vals - mean) / mean <= tol).all())
        check(not allWithin, "avg1d.exception", "ValueError although every row is within the tolerance of the mean", case, None)
        return True
    except Exception as e:
        V("avg1d.exception", "average1DWithinTolerance raised something else than ValueError", case, repr(e)[:200])
        return True
    res = np.asarray(res, dtype=float)
    det = {"result": jf(res)}
    check(np.array_equal(vals, keep), "avg1d.input-mutated", "input modified", case, det)
    if not check(not (vals <= 0).all(), "avg1d.nonphysical-accepted", "non-positive values must be refused", case, det):
        return True
    if not check(res.shape == (vals.shape[1],), "avg1d.range", "result is not one value per column", case, det):
        return True
    mean = vals.mean(axis=0)
    if (vals == vals[0]).all():
        check(np.allclose(res, vals[0], rtol=1e-12, atol=0), "avg1d.identical", "identical rows must average to that row", case, det)
    if (mean > 0).all() and (np.abs(vals - mean) / mean <= tol).all():
        check(np.allclose(res, mean, rtol=1e-12, atol=0), "avg1d.all-within", "all rows within tolerance: the result must be the plain mean", case, det)
    check(bool(((res >= vals.min(axis=0) * (1 - 1e-12)) & (res <= vals.max(axis=0) * (1 + 1e-12))).all()), "avg1d.range", "result outside the range of the inputs", case, det)
    found = False
    for k in range(1, len(vals) + 1):
        for S in itertools.combinations(range(len(vals)), k):
            sub = vals[list(S)]
            mu = sub.mean(axis=0)
            if np.allclose(mu, res, rtol=1e-12, atol=0) and (np.abs(sub - mu) / np.abs(mu) <= tol * (1 + 1e-12)).all():
                found = True
                break
        if found:
            break
    check(found, "avg1d.not-a-consistent-mean", "result is not the mean of a set of rows that are all within the tolerance of it", case, det)
    return True


# ------------------------------------------------------------------------------------------------ part: blockmesh
def comp_atoms(c):
    v = c.getVolume()
    return {nuc: float(n) * v for nuc, n in c.getNumberDensities().items()}


def run_blockmesh(case):
    a = build_source(case["src"])
    if len(a) < 2:
        return False
    Z = bounds(a)
    H = Z[-1]
    rng = random.Random(case["seed"])
    gap = min(Z[i + 1] - Z[i] for i in range(len(Z) - 1))
    mesh = [z + rng.uniform(-0.4, 0.4) * gap for z in Z[1:-1]] + [H]
    mode = case["mode"]
    try:
        a.makeAxialSnapList(refAssem=a, force=True)
        if [b.p.topIndex for b in a] != list(range(len(a))):
            B.extra["skipped"] += 1  # two block tops within np.isclose of each other: the snap list is ambiguous
            return False
        before = [[comp_atoms(c) for c in b] for b in a]
        dens = [[dict(c.getNumberDensities()) for c in b] for b in a]
        fuelSeen = False
        rule = []
        for b in a:
            if b.isFuel():
                fuelSeen = True
            if mode == "all":
                rule.append(list(range(len(b))))
            elif mode == "none":
                rule.append([])
            elif b.hasFlags(Flags.FUEL):
                rule.append([i for i, c in enumerate(b) if c.hasFlags(Flags.FUEL)])
            elif a.hasFlags(Flags.FUEL) and not fuelSeen:
                rule.append([i for i, c in enumerate(b) if not isinstance(c.material, Fluid)])
            else:
                rule.append([])
        a.setBlockMesh(mesh, conserveMassFlag={"all": True, "none": False, "auto": "auto"}[mode])
    except Exception as e:
        V("blockmesh.exception", "setBlockMesh raised", case, {"error": repr(e)[:300], "mesh": mesh})
        return True
    Zn = bounds(a)
    ok = all(abs(x - y) <= 1e-12 * H for x, y in zip(Zn[1:], mesh)) and all(abs(b.p.zbottom - Zn[k]) <= 1e-12 * H and abs(b.p.ztop - Zn[k + 1]) <= 1e-12 * H for k, b in enumerate(a))
    check(ok, "blockmesh.heights", "block tops are not the requested mesh / z coordinates not contiguous", case, {"mesh": mesh, "got": Zn})
    for k, b in enumerate(a):
        for ic, c in enumerate(b):
            now = comp_atoms(c)
            old = before[k][ic]
            if ic in rule[k]:
                vid = {"all": "blockmesh.mass.conserve-all", "auto": "blockmesh.mass.auto-fuel" if b.hasFlags(Flags.FUEL) else "blockmesh.mass.auto-below-fuel"}[mode]
                for nuc, v in old.items():
                    if not check(abs(now.get(nuc, 0.0) - v) <= RTOL * abs(v) + 1e-300, vid, "mass of a component that must be conserved changed with the block height", case,
                                 {"block": k, "component": c.getName(), "nuclide": nuc, "before": v, "after": now.get(nuc, 0.0)}):
                        break
            else:
                check(dict(c.getNumberDensities()) == dens[k][ic], "blockmesh.density.changed", "densities of a component outside the conservation rule changed", case,
                      {"block": k, "component": c.getName()})
    # Block.setHeight(conserveMass=True)
    b = a[rng.randrange(len(a))]
    nucs = list(b.getNuclides())
    old = {nuc: b.getNumberDensity(nuc) * b.getHeight() for nuc in nucs}
    try:
        b.setHeight(b.getHeight() * rng.uniform(0.5, 1.5), conserveMass=True, adjustList=nucs)
        for nuc in nucs:
            now = b.getNumberDensity(nuc) * b.getHeight()
            check(abs(now - old[nuc]) <= RTOL * abs(old[nuc]) + 1e-300, "setheight.mass", "setHeight(conserveMass=True) does not keep N x height of an adjusted nuclide", case,
                  {"nuclide": nuc, "before": old[nuc], "after": now})
    except Exception as e:
        V("blockmesh.exception", "setHeight(conserveMass=True) raised", case, {"error": repr(e)[:300]})
    return True


# ------------------------------------------------------------------------------------------------ driver
RUN = {"remesh": run_remesh, "reactor": run_reactor, "between": run_between, "filter": run_filter, "filter-badpref": run_filter_badpref,
       "common": run_common, "resample": run_resample, "avg1d": run_avg1d, "blockmesh": run_blockmesh}


def all_sources(nGenerated, hseeds):
    out = []
    for rname in ("smallest", "detailed", "full"):
        for t in designs(rname):
            out.append({"kind": "reactor", "reactor": rname, "type": t, "hseed": None})
            for h in hseeds:
                out.append({"kind": "reactor", "reactor": rname, "type": t, "hseed": h})
    for s in range(nGenerated):
        out.append({"kind": "generated", "seed": B.seed * 1000 + s})
    return out


def cases():
    T = B.thorough()
    rng = B.rng
    out = []
    srcs = all_sources(120 if T else 20, [1, 2, 3] if T else [1, 2])
    for src in srcs:
        for kind in MESH_KINDS:
            reps = (5 if T else 1) if kind not in ("identical", "single") else 1
            if not T and src["kind"] == "reactor" and src.get("hseed") is None and kind in ("finer", "shifted", "near"):
                reps = 2
            for _ in range(reps):
                out.append({"part": "remesh", "src": src, "mesh": kind, "mseed": rng.randrange(10 ** 6), "pseed": rng.randrange(10 ** 6)})
    for k in range(12 if T else 2):
        out.append({"part": "reactor", "reactor": "full" if k % 2 == 0 else "detailed", "seed": rng.randrange(10 ** 6)})
    for src in srcs:
        out.append({"part": "between", "src": src, "iseed": rng.randrange(10 ** 6), "n": 250 if T else 60})
    for _ in range(40000 if T else 1500):
        out.append(filter_case(rng.randrange(10 ** 9)))
    out.append({"part": "filter-badpref", "pref": "middle"})
    for k in range(400 if T else 24):
        out.append({"part": "common", "reactor": "full" if k % 2 == 0 else "detailed", "seed": rng.randrange(10 ** 6), "frac": rng.choice([0.0, 0.1, 0.5, 1.0]),
                    "min": rng.choice([None, 0.01, 0.5, 3.0, 3.0, 10.0, 30.0, 60.0])})
    for _ in range(60000 if T else 2500):
        out.append(resample_case(rng.randrange(10 ** 9)))
    for _ in range(10000 if T else 400):
        out.append(avg1d_case(rng.randrange(10 ** 9)))
    bm = [s for s in srcs if s.get("hseed") is None]
    for k in range(1500 if T else 60):
        out.append({"part": "blockmesh", "src": bm[k % len(bm)], "seed": rng.randrange(10 ** 6), "mode": ["all", "auto", "none"][k % 3]})
    return out


def main():
    runLog.setVerbosity("error")
    here = os.getcwd()
    with tempfile.TemporaryDirectory() as tmp:
        os.chdir(tmp)
        try:
            if B.replay is not None:
                if "case" in B.replay and "part" not in B.replay:  # ./check --replay passes the recorded {"case": ..., "detail": ...}
                    B.replay = B.replay["case"]
                RUN[B.replay["part"]](B.replay)
                print(json.dumps({"result": "fail" if B.violations else "pass", "violations": sorted(counts), "details": [[v["id"], v["input"]["detail"]] for v in B.violations],
                                  "input": B.replay}, default=str))
                return
            budget = 1100.0 if B.thorough() else 80.0
            todo = cases()
            done = 0
            for c in todo:
                if B.spent() > budget:
                    break
                runLog.setVerbosity("error")
                nontrivial = RUN[c["part"]](c)
                done += 1
                B.extra["parts"][c["part"]] = B.extra["parts"].get(c["part"], 0) + 1
                if c["part"] == "remesh":
                    B.extra["mesh_kinds"][c["mesh"]] = B.extra["mesh_kinds"].get(c["mesh"], 0) + 1
                B.case(json.dumps(c, sort_keys=True, default=str), sample=c if c["part"] in ("remesh", "filter") else None, nontrivial=bool(nontrivial))
            B.extra["cases_planned"] = len(todo)
            B.extra["cases_run"] = done
        finally:
            os.chdir(here)
    B.finish(exhaustive=False)


main()
