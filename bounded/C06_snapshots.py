"""C06 bounded tier: database snapshots are isolated, complete, queryable and survive aborted runs.

Executable contracts on the REAL armi code (armi.bookkeeping.db.database.Database, DatabaseInterface, Operator);
nothing is copied or re-implemented.  Three clauses, each with its own bound:

1. naming   [exhaustive]  getH5GroupName over all 0 <= cycle,node < 100 x 4 label kinds: injective, label-less
                          names sort chronologically, are the groups genTimeSteps lists; labelled ones are not.
2. seq      [bounded]     seeded sequences (length <= 6 quick / <= 10 thorough) of mutate | write | load | history |
                          merge | split | new | adopt on the smallest test reactor (3 assemblies so that two can be
                          swapped).  Oracle = values recorded from the live reactor at write time (by serial number).
                          Identity of objects across snapshots (ident.* / hist.ghost-step.*): `new` fabricates a fresh
                          assembly (into the core or the spent fuel pool) in the live reactor between writes, `adopt`
                          loads a written snapshot and carries on with the LOADED reactor as the live one.  The harness
                          tracks every assembly/block by its own id (independent of armi's serial numbers) and records at
                          each write which of them existed.  Clauses: a newly made object never carries a serial number
                          of any object stored in any snapshot of the database, nor of another live object, whatever
                          was loaded before (also an OLDER snapshot); the objects written into one snapshot have
                          pairwise distinct serial numbers; the history of an object has no entry for a step at which
                          it did not exist (at most the current step, with its own live value) and is queried right
                          after every `new` as well as by the history ops.  Stated within one session (one
                          interpreter, as every sequence here): what a LATER session that loads an older snapshot of
                          the file and makes new objects may assume about serial numbers is not covered.
3. abort    [bounded]     real Operator + full default interface stack + DatabaseInterface, 2 cycles x 2 burn steps;
                          a probe interface raises at one (hook, stack position, cycle, node); oracle = naive walk of
                          the standard run + what the probe itself recorded.

Violation ids of the identity clauses name the circumstance of the creation: .no-load (nothing loaded from the database
before), .after-load (some snapshot was loaded before, the live reactor is the original one), .in-loaded-reactor (the live
reactor is one loaded from the database).

Replay: --replay '{"clause":"seq","ops":[...]}' | '{"clause":"abort","hook":..,"pos":..,"cycle":..,"node":..}'
        | '{"clause":"naming"}'
"""
import collections
import gc
import json
import os
import re
import shutil
import sys
import tempfile
import time

sys.path.insert(0, os.path.dirname(os.path.abspath(__file__)))
from common import Bounded, armi_ready

armi_ready()

B = Bounded(
    rule="(1) every (cycle,node,label) name, cycle,node<100, label in {none,EOL,error,debug-style}; "
    "(2) seeded op sequences mutate|write|load|history|merge|split|new (fresh assembly made in the live reactor, core or "
    "spent fuel pool)|adopt (carry on with a loaded snapshot as the live reactor) on the smallest reactor, objects tracked by a "
    "harness-owned id so that serial numbers of new objects, of stored objects and of live objects can be told apart; general mix "
    "plus an identity-focused mix (write/new/load/adopt/history); distinct = distinct op list "
    "with >=1 accepted write and >=1 read-back; (3) one injected failure per (hook,stack position,cycle,node) of a "
    "2-cycle x 2-burn-step standard run with the full default stack, plus completed runs per probe position",
    bound="naming exhaustive (40000 names); sequences: 13 scripted (length<=7; 4 of them write/new/write/load-or-adopt an OLDER snapshot/new/query-or-write) "
    "+ seeded, quick 21 general of length<=6 + 8 identity-focused of length<=8, thorough 591 general + 120 identity-focused of length<=10; "
    "aborts: quick seeded 14 of 96 crash points + 2 completed runs, thorough all 96 + 8 completed runs",
)

# ---------------------------------------------------------------------------------------------------------------------
# plumbing: keep armi's log chatter off stdout (last stdout line must be the JSON), temp dirs, violation bookkeeping
_REAL_STDOUT = os.dup(1)
_DEVNULL = os.open(os.devnull, os.O_WRONLY)
sys.stdout.flush()
os.dup2(_DEVNULL, 1)
_REAL_STDERR = os.dup(2)


def quiet_stderr(on):
    sys.stderr.flush()
    os.dup2(_DEVNULL if on else _REAL_STDERR, 2)


import h5py  # noqa: E402
import numpy as np  # noqa: E402
from armi import context, interfaces, runLog  # noqa: E402
from armi.bookkeeping.db.database import Database, getH5GroupName  # noqa: E402
from armi.bookkeeping.db.databaseInterface import DatabaseInterface  # noqa: E402
from armi.reactor.assemblies import Assembly  # noqa: E402
from armi.reactor.blocks import Block  # noqa: E402
from armi.reactor.components import Component  # noqa: E402
from armi.reactor.tests.test_reactors import loadTestReactor  # noqa: E402
from armi.tests import TEST_ROOT  # noqa: E402

ORIG_CWD = os.getcwd()
ROOT = tempfile.TemporaryDirectory(prefix="c06_")
context.APP_DATA = os.path.join(ROOT.name, "appdata")  # armi's FAST_PATH scratch goes below our temp dir
os.makedirs(context.APP_DATA)
INPUTS = os.path.join(ROOT.name, "inp")  # operator runs read their inputs from a copy, never from /repo
shutil.copytree(os.path.join(TEST_ROOT, "smallestTestReactor"), INPUTS)
_WORK_N = [0]


class workdir:
    """A fresh temp directory used as cwd, removed on exit."""

    def __enter__(self):
        _WORK_N[0] += 1
        self.path = os.path.join(ROOT.name, "w%d" % _WORK_N[0])
        os.makedirs(self.path)
        os.chdir(self.path)
        return self.path

    def __exit__(self, *a):
        os.chdir(ROOT.name)
        gc.collect()  # let any still-open Database.__del__ run before the directory goes away
        shutil.rmtree(self.path, ignore_errors=True)
        fast = context.getFastPath()
        if fast.startswith(context.APP_DATA) and os.path.isdir(fast):
            shutil.rmtree(fast, ignore_errors=True)


VCOUNT = collections.Counter()
STATS = collections.Counter()


def vio(cond, vid, what, inp):
    """B.check with at most 3 recorded instances per violation id (all are counted in B.extra)."""
    if cond:
        return True
    VCOUNT[vid] += 1
    if VCOUNT[vid] <= 3:
        B.check(False, vid, what, inp)
    return False


_QUOTA = collections.Counter()


def quota(tag, sample, n=2):
    """At most n samples per clause, so that the 5 sample slots show every clause."""
    _QUOTA[tag] += 1
    return sample if _QUOTA[tag] <= n else None


class StopSeq(Exception):
    """The database is in an unknown state after a reported failure; the rest of the sequence is not run."""


def jsonable(v):
    if isinstance(v, np.ndarray):
        return [jsonable(x) for x in v.tolist()]
    if isinstance(v, (list, tuple)):
        return [jsonable(x) for x in v]
    if isinstance(v, dict):
        return {str(k): jsonable(x) for k, x in v.items()}
    if isinstance(v, np.floating):
        return float(v)
    if isinstance(v, np.integer):
        return int(v)
    if isinstance(v, np.bool_):
        return bool(v)
    if isinstance(v, (np.str_, bytes)):
        return v.decode() if isinstance(v, bytes) else str(v)
    if v is None or isinstance(v, (int, float, str, bool)):
        return v
    return repr(v)


def same(a, b):
    """Equality up to rel 1e-9 on floats, structural on lists/dicts, exact otherwise."""
    a, b = jsonable(a), jsonable(b)
    if isinstance(a, bool) or isinstance(b, bool):
        return a == b
    if isinstance(a, (int, float)) and isinstance(b, (int, float)):
        a, b = float(a), float(b)
        return a == b or (a != a and b != b) or abs(a - b) <= 1e-9 * max(abs(a), abs(b))
    if isinstance(a, list) and isinstance(b, list):
        return len(a) == len(b) and all(same(x, y) for x, y in zip(a, b))
    if isinstance(a, dict) and isinstance(b, dict):
        return a.keys() == b.keys() and all(same(a[k], b[k]) for k in a)
    return a == b


# ---------------------------------------------------------------------------------------------------------------------
# clause 1: naming, complete enumeration
def debug_label(c, n):
    # the style Operator._debugDB builds: "c{cycle}t{node}-{interaction}-{index}-{interface}"
    return "c{}t{}-EveryNode-1-main".format(c, n)


LABEL_KINDS = collections.OrderedDict(
    [("none", lambda c, n: None), ("EOL", lambda c, n: "EOL"), ("error", lambda c, n: "error"), ("debug", debug_label)]
)


def mem_db(names):
    """A real Database object over an in-memory HDF5 file holding (empty) groups with the given names."""
    db = Database("c06_mem.h5", "r")
    db.h5db = h5py.File("c06_mem_%d.h5" % id(names), "w", driver="core", backing_store=False)
    for nm in names:
        db.h5db.create_group(nm)
    return db


def clause_naming():
    N = 100
    pairs = [(c, n) for c in range(N) for n in range(N)]  # lexicographic == chronological
    byname = {}
    plain = []
    labelled = []
    matched = collections.OrderedDict()  # label kind -> labelled names the time-node pattern accepts
    for kind, lab in LABEL_KINDS.items():
        for c, n in pairs:
            B.case(("name", kind, c, n), quota("naming", {"clause": "naming", "cycle": c, "node": n, "label": lab(c, n)}) if (kind, c, n) == ("debug", 1, 2) else None)
            nm = getH5GroupName(c, n, lab(c, n))
            if nm in byname:
                vio(False, "name.collision", "two different (cycle,node,label) map to one group name", [nm, byname[nm], [kind, c, n]])
            byname[nm] = [kind, c, n]
            m = Database.timeNodeGroupPattern.match(nm)
            if kind == "none":
                plain.append(nm)
                vio(nm == getH5GroupName(c, n, ""), "name.none-empty", "label None and label '' must be the same key", [c, n])
                vio(bool(m) and (int(m.group(1)), int(m.group(2))) == (c, n), "name.pattern",
                    "label-less name is not recognised as time node (cycle,node) by the time-node group pattern", [c, n, nm])
            else:
                labelled.append(nm)  # what is LISTED for labelled groups is checked on a real file below (the pattern itself
                # may match them: Database needs it to read (cycle, node) off a labelled name; contract correction, DESIGN section 5)
    vio(sorted(plain) == [getH5GroupName(c, n) for c, n in pairs], "name.order",
        "sorted label-less names are not in chronological (cycle,node) order", "first differing: %r" % next(
            ([a, b] for a, b in zip(sorted(plain), [getH5GroupName(c, n) for c, n in pairs]) if a != b), None))
    # the same through the real listing functions, on a file that holds all 10^4 label-less groups
    db = mem_db(plain)
    listed = list(db.genTimeSteps())
    vio(listed == pairs, "name.listing", "genTimeSteps over all label-less groups != all (cycle,node) in chronological order",
        {"n_listed": len(listed), "first_diff": next(([a, b] for a, b in zip(listed, pairs) if tuple(a) != b), None)})
    bad = next(((c, n) for c, n in pairs if not db.hasTimeStep(c, n) or db.hasTimeStep(c, n, "EOL")), None)
    vio(bad is None, "name.has", "hasTimeStep disagrees with the groups present", bad)
    db.h5db.close()
    db.h5db = None
    # ... and on a file that holds ONLY labelled groups: nothing may be listed
    db = mem_db(labelled)
    listed = list(db.genTimeSteps())
    if listed:
        vio(False, "name.label-listed", "genTimeSteps lists labelled snapshot groups as ordinary (cycle,node) steps",
            {"n_labelled_groups": len(labelled), "n_listed": len(listed), "example": [labelled[0], listed[0]],
             "repro": "db with groups c00n00 and c00n00EOL: list(db.genTimeSteps()) == [(0,0),(0,0)]"})
    db.h5db.close()
    db.h5db = None
    B.extra["naming_exhaustive"] = True
    B.extra["naming_names"] = len(byname)


# ---------------------------------------------------------------------------------------------------------------------
# clause 2: sequences
WATCH = {  # parameters the sequences mutate (all saved to the DB once assigned); defaults: 0.0 / '' / None
    "Reactor": ["cycle", "timeNode"],
    "Core": ["keff", "maxPD", "critSearchSlope"],
    "Assembly": ["chargeTime", "THmassFlowRate", "notes"],
    "Block": ["power", "flux", "percentBu", "THhotChannelCladODT"],
}
NUCS = ["U235", "U238", "PU239"]


def level(obj):
    if isinstance(obj, Assembly):
        return "Assembly"
    if isinstance(obj, Block):
        return "Block"
    n = type(obj).__name__
    return n if n in ("Reactor", "Core") else None


def all_objects(root):
    return [root] + list(root.iterChildren(deep=True))


def fingerprint(root):
    """serial number -> recorded values (watched parameters, location, parent, number densities)."""
    out = {}
    for obj in all_objects(root):
        d = {"type": type(obj).__name__}
        lv = level(obj)
        for name in WATCH.get(lv, ()):
            d["p:" + name] = jsonable(obj.p[name])
        if lv in ("Assembly", "Block"):
            d["loc"] = [int(i) for i in obj.spatialLocator.indices]
        if obj.parent is not None:
            d["parent"] = int(obj.parent.p.serialNum)
        if isinstance(obj, Component):
            d["nd"] = {k: float(v) for k, v in obj.getNumberDensities().items()}
        out[int(obj.p.serialNum)] = d
    return out


def fp_diff(expected, got):
    diffs = []
    if set(expected) != set(got):
        diffs.append(["objects", sorted(set(expected) - set(got)), sorted(set(got) - set(expected))])
    for sn, d in expected.items():
        g = got.get(sn)
        if g is None:
            continue
        for k, v in d.items():
            if not same(v, g.get(k, "<absent>")):
                diffs.append([sn, d["type"], k, v, g.get(k, "<absent>")])
    return diffs[:6]


def raw_group(g):
    """Raw content of an HDF5 group: path -> (dtype, shape, bytes, attrs)."""
    out = {}

    def attrs_of(o):
        return {k: repr(jsonable(v)) for k, v in o.attrs.items()}

    def visit(name, o):
        if isinstance(o, h5py.Dataset):
            v = o[()]
            a = np.asarray(v)
            out[name] = (str(o.dtype), tuple(o.shape), a.tobytes() if a.dtype.kind != "O" else repr(a.tolist()), attrs_of(o))
        else:
            out[name] = ("group", attrs_of(o))

    out[""] = ("group", attrs_of(g))
    g.visititems(visit)
    return out


def raw_diff(a, b, ignore=()):
    keys = [k for k in sorted(set(a) | set(b)) if k not in ignore]
    return [k for k in keys if a.get(k) != b.get(k)][:5]


def gen_sequence(rng, maxlen, ident=False):
    """A concrete, JSON-able op list; run-time selections are indices taken modulo what exists then.

    ident=True: the identity-focused mix (write | new | load | adopt | history, few plain mutations, no merge/split).
    """
    L = rng.randint(5 if ident else 3, maxlen)
    labels_on = rng.random() < 0.5
    edge = [0, 1, 2, 9, 10, 11, 98, 99]
    pool = []
    while len(pool) < 5:
        cn = (rng.choice(edge) if rng.random() < 0.7 else rng.randrange(100), rng.choice(edge[:4]) if rng.random() < 0.7 else rng.randrange(100))
        if cn not in pool:
            pool.append(cn)
    ops = []
    val = [0]

    def value():
        val[0] += 1
        v = round(rng.uniform(0.5, 900.0), 6) + val[0] * 1000.0  # never repeats within a sequence
        # assumption review: every parameter value used to be positive; state values may be negative as well (still unique)
        return -v if rng.random() < 0.15 else v

    def mutate():
        k = rng.random()
        if k < 0.12:
            return ["mut", "core", rng.choice(WATCH["Core"]), value()]
        if k < 0.32:
            p = rng.choice(WATCH["Assembly"])
            return ["mut", "assem", rng.randrange(3), p, ("note%d" % int(value())) if p == "notes" else value()]
        if k < 0.60:
            return ["mut", "block", rng.randrange(3), rng.choice(WATCH["Block"]), value()]
        if k < 0.78:
            return ["mut", "nd", rng.randrange(3), rng.choice(NUCS), round(rng.uniform(1e-5, 5e-3), 9)]
        i = rng.randrange(3)
        return ["mut", "swap", i, (i + rng.randint(1, 2)) % 3]

    def write():
        c, n = rng.choice(pool)
        lab = ""
        if labels_on and rng.random() < 0.4:
            lab = rng.choice(["EOL", "error", debug_label(c, n)])
        return ["write", c, n, lab]

    def new():
        return ["new", "core" if rng.random() < 0.5 else "sfp", value()]

    def hist():
        kind = rng.choice(["assem", "block"])
        names = WATCH["Assembly"] + ["location"] if kind == "assem" else WATCH["Block"]
        params = sorted(rng.sample(names, rng.randint(1, len(names))))
        return ["hist", kind, 7 if rng.random() < 0.6 else rng.randint(1, 6), params, None if rng.random() < 0.5 else rng.randint(1, 63)]

    if ident:
        if rng.random() < 0.6:  # a later snapshot that holds an object the earlier one lacks, then anything
            ops += [write(), new(), write()]
        for i in range(len(ops), L):
            k = rng.random()
            if i == 0 or k < 0.20:
                ops.append(write())
            elif k < 0.50:
                ops.append(new())
            elif k < 0.68:
                ops.append(["load", rng.randrange(1000)])
            elif k < 0.82:
                ops.append(["adopt", rng.randrange(1000)])
            elif k < 0.94:
                ops.append(hist())
            else:
                j = rng.randrange(6)  # also the objects made by `new` (index modulo what exists)
                ops.append(["mut", "block", j, rng.choice(WATCH["Block"]), value()] if rng.random() < 0.6 else ["mut", "assem", j, "chargeTime", value()])
        return ops

    for i in range(L):
        k = rng.random()
        if i == 0 or k < 0.30:
            ops.append(write())
        elif k < 0.52:
            ops.append(mutate())
        elif k < 0.56:
            ops.append(new())
        elif k < 0.58:
            ops.append(["adopt", rng.randrange(1000)])
        elif k < 0.70:
            ops.append(["load", rng.randrange(1000)])
        elif k < 0.84:
            ops.append(hist())
        elif k < 0.92:
            if rng.random() < 0.7:
                ops.append(["merge", "at", rng.randrange(1000)])
            else:
                ops.append(["merge", "cn"] + list(rng.choice(pool)))
        else:
            ops.append(["split", rng.randint(1, 63)])
    return ops


class SeqRun:
    """Executes one op list against a real Database and a live reactor, checking the C06 clauses as it goes."""

    def __init__(self, ops):
        self.ops = ops
        self.model = {}  # (cycle, node, label) -> fingerprint recorded at write time
        self.stale_hist_shift = 0  # > 0 once a split has renumbered cycles (group attrs keep the old cycle)
        self.step_shift = {}  # (cycle, node) as listed now -> cycle offset of the stale attrs of THAT step (several splits add up per step)
        self.readbacks = 0
        self.at = -1
        # identity bookkeeping, independent of armi's serial numbers: every tracked assembly (and its block) has a harness id
        self.auid = []  # harness ids, parallel to self.assems / self.blocks
        self.origin = {}  # harness id -> "initial" | circumstance of its creation by a `new` op
        self.present = {}  # (cycle, node, label) -> {"assem": {harness id: serial at that write}, "block": {...}}
        self.ever_stored = {}  # serial number -> [type, first snapshot key] for every object ever written to the database
        self.loads = 0  # snapshots loaded from the database so far (load ops, merged-db read-backs, adopts)
        self.loaded_older = False  # ... one of them lacked objects that a later-written snapshot holds
        self.adopted = False  # the live reactor is one that was loaded from the database

    def inp(self, **kw):
        d = {"clause": "seq", "ops": self.ops, "failed_at_op": self.at}
        d.update(kw)
        return d

    # -- helpers ------------------------------------------------------------------------------------------------------
    def plain_steps(self):
        return sorted((c, n) for (c, n, lab) in self.model if lab == "")

    def labelled_at(self, cn):
        return [lab for (c, n, lab) in self.model if (c, n) == cn and lab != ""]

    def circ(self):
        """Circumstance of a creation / write, part of the ident.* and hist.ghost-step.* violation ids."""
        return "in-loaded-reactor" if self.adopted else ("after-load" if self.loads else "no-load")

    def refresh(self):
        self.blocks = [a[0] for a in self.assems]
        self.fuels = [next(c for c in b if c.name == "fuel") for b in self.blocks]

    def note_load(self, key):
        self.loads += 1
        STATS["loads_total"] += 1
        if key in self.model and set(self.ever_stored) - set(self.model[key]):
            self.loaded_older = True  # the snapshot lacks objects that exist in other snapshots
            STATS["loads_of_older_snapshot"] += 1

    def live_value(self, obj, p):
        return [int(i) for i in obj.spatialLocator.indices] if p == "location" else jsonable(obj.p[p])

    def check_listing(self, db, where):
        listed = [tuple(int(i) for i in s) for s in db.genTimeSteps()]
        exp = self.plain_steps()
        if listed == exp:
            return
        with_labels = sorted([(c, n) for (c, n, lab) in self.model])
        if listed == with_labels:
            vio(False, "snap.listing-labelled", "genTimeSteps lists labelled snapshots as (cycle,node) steps "
                "(duplicates / steps that were never written label-less)", self.inp(where=where, listed=listed, written_labelless=exp))
        else:
            vio(False, "snap.listing", "genTimeSteps != written label-less steps in chronological order",
                self.inp(where=where, listed=listed, written_labelless=exp))

    def check_load(self, db, key, where, cs=None, bp=None, expected=None):
        c, n, lab = key
        STATS["loads_compared"] += 1
        self.readbacks += 1
        try:
            r2 = db.load(c, n, cs=cs, bp=bp, statePointName=lab or None)
        except Exception as e:  # noqa: BLE001
            vio(False, "snap.load-failed", "loading a written snapshot raised", self.inp(where=where, key=list(key), error=repr(e)))
            return None
        self.note_load(key)
        d = fp_diff(expected if expected is not None else self.model[key], fingerprint(r2))
        vio(not d, "snap.isolation", "loaded snapshot differs from the state recorded when it was written "
            "[serial, type, what, recorded, loaded]", self.inp(where=where, key=list(key), diffs=d))
        return None if d else r2

    # -- ops ----------------------------------------------------------------------------------------------------------
    def op_mut(self, op):
        kind = op[1]
        if kind == "core":
            self.r.core.p[op[2]] = op[3]
        elif kind == "assem":
            self.assems[op[2] % len(self.assems)].p[op[3]] = op[4]
        elif kind == "block":
            self.blocks[op[2] % len(self.blocks)].p[op[3]] = op[4]
        elif kind == "nd":
            self.fuels[op[2] % len(self.fuels)].setNumberDensity(op[3], op[4])
        elif kind == "swap":
            a1, a2 = self.assems[op[2] % len(self.assems)], self.assems[op[3] % len(self.assems)]
            if a1 is a2 or a1.parent is not self.r.core or a2.parent is not self.r.core:
                STATS["swaps_skipped_not_both_in_core"] += 1
                return
            l1 = a1.spatialLocator
            a1.moveTo(a2.spatialLocator)
            a2.moveTo(l1)
            STATS["swaps"] += 1

    def op_write(self, op):
        c, n, lab = op[1], op[2], op[3]
        key = (c, n, lab)
        self.r.p.cycle, self.r.p.timeNode = c, n
        name = getH5GroupName(c, n, lab or None)
        if key in self.model:
            STATS["duplicate_writes"] += 1
            before = raw_group(self.db.h5db[name])
            try:
                self.db.writeToDB(self.r, lab or None)
                refused = False
            except Exception:  # noqa: BLE001
                refused = True
            vio(refused, "snap.overwrite", "writing an existing (cycle,node,label) again was not refused with an error", self.inp(key=list(key)))
            d = raw_diff(before, raw_group(self.db.h5db[name]))
            vio(not d, "snap.overwrite-intact", "a refused second write changed the first snapshot (datasets listed)", self.inp(key=list(key), changed=d))
        else:
            rec = fingerprint(self.r)
            objs = all_objects(self.r)
            if len(rec) != len(objs):  # the oracle itself is keyed by serial number: objects sharing one cannot be told apart
                cnt = collections.Counter(int(x.p.serialNum) for x in objs)
                shared = {sn: [repr(x) for x in objs if int(x.p.serialNum) == sn] for sn in sorted(cnt) if cnt[sn] > 1}
                vio(False, "ident.serial-shared-in-snapshot." + self.circ(), "the objects of the reactor about to be written do not have "
                    "pairwise distinct serial numbers (histories and loads match objects by serial number)",
                    self.inp(key=list(key), shared_serials=dict(list(shared.items())[:6]), loaded_older_snapshot_before=self.loaded_older))
                raise StopSeq()
            try:
                self.db.writeToDB(self.r, lab or None)
            except Exception as e:  # noqa: BLE001
                vio(False, "snap.write-failed", "writing a fresh (cycle,node,label) raised", self.inp(key=list(key), error=repr(e)))
                return
            self.model[key] = rec
            self.present[key] = {"assem": {u: int(a.p.serialNum) for u, a in zip(self.auid, self.assems)},
                                 "block": {u: int(b.p.serialNum) for u, b in zip(self.auid, self.blocks)}}
            for sn, d in rec.items():
                self.ever_stored.setdefault(sn, [d["type"], list(key)])
            STATS["writes"] += 1
            STATS["labelled_writes"] += bool(lab)
        vio(self.db.hasTimeStep(c, n, lab), "snap.has", "hasTimeStep is False for a written snapshot", self.inp(key=list(key)))
        self.check_listing(self.db, "after write")

    def op_load(self, op):
        if not self.model:
            return
        keys = sorted(self.model)
        self.check_load(self.db, keys[op[1] % len(keys)], "load op")

    def op_adopt(self, op):
        """Load a written snapshot and carry on with the LOADED reactor as the live one (restart / look-back style)."""
        if not self.model:
            return
        keys = sorted(self.model)
        key = keys[op[1] % len(keys)]
        r2 = self.check_load(self.db, key, "adopt op")
        if r2 is None:
            raise StopSeq()  # reported by check_load; no trustworthy reactor to carry on with
        by_sn = {int(o.p.serialNum): o for o in all_objects(r2)}
        pres = self.present[key]
        keep = [(u, by_sn[pres["assem"][u]]) for u in self.auid if u in pres["assem"]]  # objects made after that write are gone
        bad = [u for u, a in keep if int(a[0].p.serialNum) != pres["block"][u]]
        vio(not bad, "snap.isolation", "in the loaded snapshot the first block of an assembly is not the object that was its first block at the write",
            self.inp(where="adopt op", key=list(key), assemblies=[pres["assem"][u] for u in bad]))
        self.r = r2
        self.auid = [u for u, _a in keep]
        self.assems = [a for _u, a in keep]
        self.refresh()
        self.adopted = True
        STATS["adopts"] += 1

    def ghost_check(self, kind, obj, uid, got, p, absent_steps, now, why, claimed=(), unfiltered=True):
        """History entries of `obj` at steps at which it did not exist: none, except the current step with its own live value.

        claimed: history keys that steps at which the object DID exist may legitimately (or by the known stale-cycle-after-split
        defect, reported as split.history-keys) use; unfiltered: the query named no time steps (labelled snapshots are then
        visited too, reported as hist.label-shadow).
        """
        ok = True
        for step in absent_steps:
            keys = [step] + ([(step[0] + self.step_shift.get(tuple(step), 0), step[1])] if self.step_shift.get(tuple(step), 0) else [])
            cn = next((k for k in keys if k in got and k not in claimed), None)
            if cn is None:
                continue
            v = got[cn]
            if cn == now and same(self.live_value(obj, p), v):
                continue  # the current step is appended from the live reactor by design
            labs = [lab for lab in self.labelled_at(step) if unfiltered and uid in self.present[step + (lab,)][kind]]
            if labs:  # made between the label-less and the labelled write at this (cycle,node): the labelled snapshot shows through
                vio(False, "hist.label-shadow", "history has a value at a (cycle,node) at which the object did not exist at the label-less write; "
                    "it comes from the LABELLED snapshot at that (cycle,node)", self.inp(where=why, obj=int(obj.p.serialNum), param=p, step=list(step),
                                                                                      label=labs[0], returned=jsonable(v)))
                continue
            owner = None
            rec = self.model.get(step + ("",), {}).get(int(obj.p.serialNum))
            if rec is not None:
                owner = {"serial": int(obj.p.serialNum), "type": rec["type"], "value_at_step": rec.get("loc") if p == "location" else rec.get("p:" + p)}
            ok = vio(False, "hist.ghost-step." + self.origin[uid], "history of an object has an entry for a step at which this object did not exist "
                     "(it was made after that write); the value is the one of ANOTHER object stored under the same serial number" if owner else
                     "history of an object has an entry for a step at which this object did not exist (it was made after that write)",
                     self.inp(where=why, type=kind, harness_id=uid, serial=int(obj.p.serialNum), param=p, step=list(step), history_key=list(cn), returned=jsonable(v),
                              live_value=self.live_value(obj, p), current_step=list(now), stored_object_with_that_serial=owner,
                              loaded_older_snapshot_before=self.loaded_older))
        return ok

    def op_new(self, op):
        """A fresh assembly is fabricated in the live reactor (core position or spent fuel pool) between writes."""
        where, v = op[1], op[2]
        circ = self.circ()
        live = collections.Counter(int(x.p.serialNum) for x in all_objects(self.r))
        a = self.r.core.createAssemblyOfType("igniter fuel", cs=self.o.cs)
        if where == "core":
            k = next(k for k in range(3, 100) if self.r.core.childrenByLocator.get(self.r.core.spatialGrid[k, 0, 0]) is None)
            self.r.core.add(a, self.r.core.spatialGrid[k, 0, 0])
        else:
            self.r.excore["sfp"].add(a)
        b = a[0]
        a.p.chargeTime = v  # recognisable values; percentBu / THhotChannelCladODT / THmassFlowRate stay unset (defaults)
        a.p.notes = "new-%d" % int(v)
        b.p.flux = v + 0.25
        b.p.power = v + 0.5
        uid = max(self.origin) + 1
        self.origin[uid] = "new-" + circ
        self.auid.append(uid)
        self.assems.append(a)
        self.refresh()
        STATS["new_objects"] += 1
        STATS["new_objects_" + circ] += 1
        STATS["new_objects_after_load_of_older_snapshot"] += self.loaded_older
        made = [a] + list(a.iterChildren(deep=True))
        sns = [int(x.p.serialNum) for x in made]
        ctx = dict(created=where, harness_id=uid, new_serials=[min(sns), max(sns)], loaded_older_snapshot_before=self.loaded_older, snapshots_loaded_before=self.loads)
        # (a) never the serial number of another live object (nor twice within the new assembly)
        shared = sorted(sn for sn in set(sns) if live[sn] or sns.count(sn) > 1)
        okLive = vio(not shared, "ident.serial-shared-live." + circ, "a newly made object carries the serial number of another object of the live reactor",
                     self.inp(shared_serials=shared[:12], **ctx))
        # (b) never the serial number of an object stored in any snapshot of the database
        reused = sorted(sn for sn in set(sns) if sn in self.ever_stored)
        okStored = vio(not reused, "ident.serial-reused-stored." + circ, "a newly made object carries a serial number that already identifies another "
                       "object stored in a snapshot of the database [serial, type of the stored object, first snapshot holding it]",
                       self.inp(reused=[[sn] + self.ever_stored[sn] for sn in reused[:12]], **ctx))
        # (c) queried right away: it existed at none of the written steps
        steps = self.plain_steps()
        if steps:
            now = (int(self.r.p.cycle), int(self.r.p.timeNode))
            try:
                ha = self.db.getHistories([a], ALLA)
                hb = self.db.getHistories([b], WATCH["Block"])
            except Exception as e:  # noqa: BLE001
                vio(False, "hist.failed", "getHistories raised on written steps", self.inp(where="new op", error=repr(e)))
                raise StopSeq()
            self.readbacks += 1
            STATS["ghost_history_queries"] += 1
            for kind, obj, h, params in (("assem", a, ha, ALLA), ("block", b, hb, WATCH["Block"])):
                for p in params:
                    got = {(int(k[0]), int(k[1])): x for k, x in h[obj][p].items()}
                    STATS["hist_values_compared"] += len(steps)
                    self.ghost_check(kind, obj, uid, got, p, sorted(set(got) | set(steps)), now, "new op")
        if not (okLive and okStored):
            raise StopSeq()  # the oracle matches by serial number too; what follows would only repeat this failure

    def op_hist(self, op):
        kind, objmask, params, stepmask = op[1], op[2], op[3], op[4]
        steps = self.plain_steps()
        if not steps:
            return
        # bit i of the mask selects the i-th of the three initial objects; objects made by `new` ride on bit (index mod 3)
        sel = [(o, u) for i, (o, u) in enumerate(zip(self.assems if kind == "assem" else self.blocks, self.auid)) if objmask >> (i % 3) & 1]
        objs = [o for o, _u in sel]
        if not objs:
            return
        timeSteps = None
        if stepmask is not None:
            timeSteps = [s for i, s in enumerate(steps) if stepmask >> (i % 6) & 1] or [steps[0]]
        try:
            hist = self.db.getHistories(objs, params, timeSteps)
        except Exception as e:  # noqa: BLE001
            vio(False, "hist.failed", "getHistories raised on written steps", self.inp(error=repr(e)))
            return
        self.readbacks += 1
        now = (int(self.r.p.cycle), int(self.r.p.timeNode))
        wanted = timeSteps if timeSteps is not None else steps
        for o, uid in sel:
            for p in params:
                got = {(int(k[0]), int(k[1])): v for k, v in hist[o][p].items()}
                absent = [cn for cn in wanted if uid not in self.present[cn + ("",)][kind]]
                STATS["hist_values_compared"] += len(absent)
                STATS["hist_absent_steps_checked"] += len(absent)
                claimed = set()
                for cn in wanted:
                    if cn not in absent:
                        claimed |= {cn, (cn[0] + self.step_shift.get(cn, 0), cn[1])}
                self.ghost_check(kind, o, uid, got, p, absent, now, "hist op", claimed, timeSteps is None)
                for cn in wanted:
                    if cn in absent:
                        continue
                    STATS["hist_values_compared"] += 1
                    sn = self.present[cn + ("",)][kind][uid]  # the serial number this very object had at that write
                    rec = self.model[cn + ("",)][sn]
                    exp = rec["loc"] if p == "location" else rec["p:" + p]
                    if cn not in got:
                        shifted = (cn[0] + self.step_shift.get(cn, 0), cn[1])
                        if self.step_shift.get(cn, 0) and shifted in got:
                            vio(False, "split.history-keys", "after splitDatabase the history is keyed by the pre-split cycle while "
                                "the steps are listed under the new cycle", self.inp(step=list(cn), history_key=list(shifted)))
                        else:
                            vio(False, "hist.steps", "history lacks a written step", self.inp(obj=sn, param=p, step=list(cn), keys=sorted(got)))
                        continue
                    v = got[cn]
                    if same(exp, v):
                        continue
                    shadow = [lab for lab in self.labelled_at(cn) if timeSteps is None and sn in self.model[cn + (lab,)] and same(
                        (self.model[cn + (lab,)][sn]["loc"] if p == "location" else self.model[cn + (lab,)][sn]["p:" + p]), v)]
                    if shadow:
                        vio(False, "hist.label-shadow", "history value at (cycle,node) is the one of the LABELLED snapshot at that "
                            "(cycle,node), not the value the object had at the label-less write", self.inp(obj=sn, param=p, step=list(cn),
                                                                                                     label=shadow[0], at_step=exp, returned=jsonable(v)))
                    else:
                        vio(False, "hist.value", "history value != value the same object (by serial number) had at that step",
                            self.inp(obj=sn, type=kind, param=p, step=list(cn), at_step=exp, returned=jsonable(v)))
                sn = int(o.p.serialNum)
                for cn in got:
                    if cn in wanted or cn == now:
                        continue  # 'now' is appended from the live reactor by design (not a stored step)
                    if timeSteps is None and self.labelled_at(cn):
                        vio(False, "hist.label-listed", "history has an entry for a (cycle,node) that only exists as a labelled snapshot",
                            self.inp(obj=sn, param=p, step=list(cn)))
                    elif any(sh and (w[0] + sh, w[1]) == cn for w, sh in self.step_shift.items() if w in wanted):
                        pass  # reported above as split.history-keys
                    else:
                        vio(False, "hist.steps", "history has an entry for a step that was not written/requested", self.inp(obj=sn, param=p, step=list(cn)))

    def op_merge(self, op):
        steps = self.plain_steps()
        if not steps:
            return
        if op[1] == "at":
            start = steps[op[2] % len(steps)]
        else:
            start = (op[2], op[3])
        present = start in steps
        expected = [s for s in steps if s < start]
        self.nmerge += 1
        db2 = Database("merged%d.h5" % self.nmerge, "w")
        STATS["merges"] += 1
        STATS["merges_start_absent"] += not present
        self.readbacks += 1
        with db2:
            try:
                db2.mergeHistory(self.db, start[0], start[1])
            except Exception as e:  # noqa: BLE001
                vio(False, "merge.failed", "mergeHistory raised", self.inp(start=list(start), error=repr(e)))
                return
            got = sorted((int(c), int(n)) for c, n in (
                (m.group(1), m.group(2)) for m in (re.match(r"^c(\d\d)n(\d\d)$", k) for k in db2.h5db.keys()) if m))
            if got != expected:
                vid = "merge.steps" if present else "merge.start-absent"
                what = ("merged label-less steps != written steps strictly before the restart (cycle,node)" if present else
                        "restart (cycle,node) is not a step of the source: steps AFTER it were copied too (expected only earlier steps)")
                vio(False, vid, what, self.inp(start=list(start), copied=got, expected=expected, source_steps=steps))
            for cn in got:
                if cn + ("",) not in self.model:
                    continue
                nm = getH5GroupName(*cn)
                d = raw_diff(raw_group(self.db.h5db[nm]), raw_group(db2.h5db[nm]))
                vio(not d, "merge.unchanged", "a merged step differs from the source step (datasets listed)", self.inp(start=list(start), step=list(cn), changed=d))
            if got and all(cn + ("",) in self.model for cn in got):
                cn = got[op[-1] % len(got)]
                self.check_load(db2, cn + ("",), "merged db", cs=self.o.cs, bp=self.r.blueprints)

    def op_split(self, op):
        steps = self.plain_steps()
        if not steps:
            return
        keep = [s for i, s in enumerate(steps) if op[1] >> (i % 6) & 1] or [steps[-1]]
        before = {k: raw_group(self.db.h5db[k]) for k in self.db.h5db.keys() if k != "inputs"}
        self.nsplit += 1
        STATS["splits"] += 1
        self.readbacks += 1
        try:
            backup = self.db.splitDatabase(keep, "-all%d" % self.nsplit)
        except Exception as e:  # noqa: BLE001
            vio(False, "split.failed", "splitDatabase raised for written steps", self.inp(keep=keep, error=repr(e)))
            raise StopSeq()
        minc = min(c for c, _ in keep)
        newmodel = {}
        for c, n in keep:
            rec = json.loads(json.dumps(self.model[(c, n, "")]))
            rec = {int(k): v for k, v in rec.items()}
            for d in rec.values():
                if d["type"] == "Reactor":
                    d["p:cycle"] = c - minc
            newmodel[(c - minc, n, "")] = rec
        got = sorted(k for k in self.db.h5db.keys() if k != "inputs")
        exp = sorted(getH5GroupName(c - minc, n) for c, n in keep)
        vio(got == exp, "split.steps", "after splitDatabase the database does not hold exactly the requested steps "
            "(renumbered from the first kept cycle)", self.inp(keep=keep, groups=got, expected=exp))
        for c, n in keep:
            new = getH5GroupName(c - minc, n)
            if new in self.db.h5db:
                d = raw_diff(before[getH5GroupName(c, n)], raw_group(self.db.h5db[new]), ignore=("Reactor/cycle",))
                vio(not d, "split.unchanged", "a kept step differs from the original (datasets listed)", self.inp(keep=keep, step=[c, n], changed=d))
        vio("inputs" in self.db.h5db and "settings" in self.db.h5db["inputs"], "split.inputs", "inputs were not carried over", self.inp(keep=keep))
        with h5py.File(backup, "r") as full:
            got = sorted(k for k in full.keys() if k != "inputs")
            vio(got == sorted(before), "split.backup", "the backup file does not hold every original snapshot", self.inp(keep=keep, groups=got))
            for k in got:
                if k in before:
                    d = raw_diff(before[k], raw_group(full[k]))
                    vio(not d, "split.backup", "a snapshot in the backup file differs from the original", self.inp(keep=keep, group=k, changed=d))
        self.model = newmodel
        self.present = {(c - minc, n, ""): self.present[(c, n, "")] for c, n in keep}
        self.stale_hist_shift += minc
        self.step_shift = {(c - minc, n): self.step_shift.get((c, n), 0) + minc for c, n in keep}
        self.check_listing(self.db, "after split")

    # -- driver -------------------------------------------------------------------------------------------------------
    def run(self):
        with workdir():
            self.o, self.r = loadTestReactor(inputFileName="smallestTestReactor/armiRunSmallest.yaml")
            r = self.r
            for k in range(2):  # 3 assemblies, so that objects can move
                a = r.core.createAssemblyOfType("igniter fuel")
                r.core.add(a, r.core.spatialGrid[k + 1, 0, 0])
            self.assems = list(r.core)
            self.auid = list(range(len(self.assems)))
            self.origin = {u: "initial" for u in self.auid}
            self.refresh()
            for i, (a, b) in enumerate(zip(self.assems, self.blocks)):  # make the objects distinguishable
                a.p.chargeTime = 10.0 * (i + 1)
                a.p.notes = "assembly-%d" % i
                b.p.power = 100.0 * (i + 1)
                b.p.percentBu = 0.25 * (i + 1)
            self.nmerge = self.nsplit = 0
            dbi = DatabaseInterface(r, self.o.cs)
            dbi.initDB(fName="seq.h5")
            self.db = dbi.database
            try:
                for self.at, op in enumerate(self.ops):
                    STATS["op_" + op[0]] += 1
                    getattr(self, "op_" + op[0])(op)
                self.at = len(self.ops)
                # whatever happened later: every written snapshot still is what it was when written
                for key in sorted(self.model):
                    self.check_load(self.db, key, "final sweep")
                self.check_listing(self.db, "end")
                self.db.close(True)
                if self.model:
                    with Database("seq.h5", "r") as rd:  # the file moved into the working directory on close
                        self.check_listing(rd, "reopened")
                        self.check_load(rd, sorted(self.model)[len(self.ops) % len(self.model)], "reopened")
            except StopSeq:
                pass
            finally:
                self.db.close()
            return bool(self.model) and self.readbacks > 0


ALLA = WATCH["Assembly"] + ["location"]
SCRIPTED = [  # run in both tiers before the seeded ones: one short scenario per sub-clause, so coverage does not hinge on the seed
    # identity after a move (assemblies, then blocks)
    [["write", 0, 0, ""], ["mut", "swap", 0, 1], ["mut", "assem", 0, "chargeTime", 1111.5], ["mut", "block", 1, "power", 2222.5], ["write", 0, 1, ""], ["hist", "assem", 7, ALLA, None]],
    [["write", 0, 0, ""], ["mut", "swap", 0, 2], ["mut", "block", 0, "flux", 3333.5], ["write", 0, 1, ""], ["hist", "block", 7, WATCH["Block"], None], ["load", 0]],
    # refusal to overwrite
    [["write", 1, 0, ""], ["mut", "core", "keff", 1.2345], ["write", 1, 0, ""], ["mut", "block", 2, "power", 4444.5], ["write", 1, 0, ""], ["load", 0]],
    # merge up to (not including) a step of the source; last copied step is the one right before it
    [["write", 0, 0, ""], ["mut", "nd", 0, "U235", 0.0011], ["write", 0, 1, ""], ["mut", "assem", 1, "notes", "moved"], ["write", 0, 2, ""], ["merge", "at", 2]],
    # split keeping the two steps of the later cycle (renumbered from 0)
    [["write", 0, 1, ""], ["mut", "core", "maxPD", 5555.5], ["write", 3, 0, ""], ["mut", "block", 1, "percentBu", 6.5], ["write", 3, 1, ""], ["split", 6]],
    # a labelled snapshot next to a label-less one at the same (cycle,node)
    [["write", 1, 2, ""], ["mut", "assem", 0, "chargeTime", 7777.5], ["write", 1, 2, "EOL"], ["hist", "assem", 7, ["chargeTime"], None], ["load", 0], ["load", 1]],
    # default for a parameter not yet set at an earlier step
    [["write", 0, 0, ""], ["mut", "block", 1, "THhotChannelCladODT", 8888.5], ["mut", "block", 0, "flux", 9999.5], ["write", 0, 1, ""], ["hist", "block", 7, ["THhotChannelCladODT", "flux"], None]],
    # restart point that is not itself a step of the source database
    [["write", 0, 0, ""], ["mut", "core", "keff", 1.0123], ["write", 0, 2, ""], ["merge", "cn", 0, 1]],
    # history after a split that renumbers the cycles
    [["write", 3, 0, ""], ["mut", "assem", 0, "chargeTime", 1212.5], ["write", 4, 0, ""], ["split", 3], ["hist", "assem", 7, ["chargeTime"], None]],
    # identity across snapshots when objects are made between writes: write / new A / write / look back at the OLDER snapshot /
    # new B in the live reactor / query: B shares no serial number with A (stored at (0,1)) and has no history at (0,0), (0,1)
    [["write", 0, 0, ""], ["new", "sfp", 13000.5], ["write", 0, 1, ""], ["load", 0], ["new", "sfp", 14000.5], ["hist", "block", 7, WATCH["Block"], None]],
    # the same with the LOADED older snapshot as the reactor that is carried on with (restart style), B is written too
    [["write", 0, 0, ""], ["new", "core", 15000.5], ["write", 0, 1, ""], ["adopt", 0], ["new", "sfp", 16000.5], ["write", 0, 2, ""], ["hist", "assem", 7, ALLA, None]],
    # ... B made at the core position A occupies in the later snapshot, steps selected explicitly, blocks queried
    [["write", 1, 0, ""], ["new", "core", 17000.5], ["write", 1, 1, ""], ["adopt", 0], ["new", "core", 18000.5], ["write", 1, 2, ""], ["hist", "block", 7, ["flux", "power"], 7]],
    # a new object that then moves: identity after the move, no history before it existed; an older snapshot loaded in between
    [["write", 0, 0, ""], ["new", "core", 19000.5], ["write", 0, 1, ""], ["load", 0], ["mut", "swap", 0, 3], ["write", 0, 2, ""], ["hist", "assem", 7, ALLA, None]],
]


def clause_sequences(ngeneral, nident, maxlen, maxlen_ident):
    """All scripted scenarios, then `ngeneral` seeded sequences of the general mix, then `nident` of the identity-focused mix."""
    nseq = len(SCRIPTED) + ngeneral + nident
    for i in range(nseq):
        ops = SCRIPTED[i] if i < len(SCRIPTED) else gen_sequence(B.rng, maxlen) if i < len(SCRIPTED) + ngeneral else gen_sequence(B.rng, maxlen_ident, ident=True)
        run = SeqRun(ops)
        try:
            nontrivial = run.run()
        except Exception as e:  # noqa: BLE001
            nontrivial = True
            vio(False, "seq.crash", "the sequence could not be executed", run.inp(error=repr(e)))
        B.case(json.dumps(ops), quota("seq", {"clause": "seq", "ops": ops}), nontrivial=nontrivial)
        STATS["sequences"] += 1


# ---------------------------------------------------------------------------------------------------------------------
# clause 3: completion mark and error path with the real Operator
class InjectedFailure(Exception):
    pass


MARK_CORE, MARK_BLOCK = "critSearchSlope", "THmassFlowRate"  # written to the DB, touched by no interface of the stack
HOOKS = ["interactBOL", "interactBOC", "interactEveryNode", "interactEOC", "interactEOL"]


class Probe(interfaces.Interface):
    """Records every hook call, stamps the reactor with a fresh marker, and raises at one chosen crash point."""

    name = "c06probe"

    def __init__(self, r, cs, failAt):
        interfaces.Interface.__init__(self, r, cs)
        self.failAt = failAt
        self.log = []
        self.failed = None

    def _hit(self, hook, cycle, node):
        marker = 1000.0 + len(self.log) + 1
        self.r.core.p[MARK_CORE] = marker
        for b in self.r.core.getBlocks():
            b.p[MARK_BLOCK] = marker
        dbi = self.o.getInterface("database")
        entry = {"hook": hook, "cycle": cycle, "node": node, "marker": marker, "r_cycle": int(self.r.p.cycle), "r_node": int(self.r.p.timeNode),
                 "db_open": bool(dbi is not None and dbi._db is not None and dbi._db.isOpen())}
        self.log.append(entry)
        if self.failAt == (hook, cycle, node):
            self.failed = entry
            raise InjectedFailure("%s %s %s" % (hook, cycle, node))

    def interactBOL(self):
        self._hit("interactBOL", None, None)

    def interactBOC(self, cycle=None):
        self._hit("interactBOC", cycle, None)

    def interactEveryNode(self, cycle, node):
        self._hit("interactEveryNode", cycle, node)

    def interactEOC(self, cycle=None):
        self._hit("interactEOC", cycle, None)

    def interactEOL(self):
        self._hit("interactEOL", None, None)


NCYCLES, BURNSTEPS = 2, 2
NODES = [(c, n) for c in range(NCYCLES) for n in range(BURNSTEPS + 1)]


def crash_points():
    pts = [("interactBOL", None, None)]
    for c in range(NCYCLES):
        pts.append(("interactBOC", c, None))
        pts += [("interactEveryNode", c, n) for n in range(BURNSTEPS + 1)]
        pts.append(("interactEOC", c, None))
    pts.append(("interactEOL", None, None))
    return pts


def naive_walk():
    """The standard run as the property describes it: the sequence of interaction points."""
    return crash_points()


def before(order, a, b):
    names = [i.name for i in order]
    return names.index(a) < names.index(b)


def run_case(point, pos):
    """One run; point None = no failure.  Returns 'checked' | 'skipped:<why>'."""
    inp = {"clause": "abort", "hook": point[0] if point else None, "cycle": point[1] if point else None, "node": point[2] if point else None, "pos": pos}
    with workdir():
        o, r = loadTestReactor(inputFilePath=INPUTS, inputFileName="armiRunSmallest.yaml", customSettings={
            "db": True, "nCycles": NCYCLES, "burnSteps": BURNSTEPS, "fuelHandlerName": "", "detailAssemLocationsBOL": [], "genReports": False})
        runLog.setVerbosity("error")
        stack = [i.name for i in o.interfaces]
        assert "database" in stack and "main" in stack, stack
        probe = Probe(r, o.cs, point)
        o.addInterface(probe, index=pos)
        inp["stack"] = [i.name for i in o.interfaces]
        # where the probe stands relative to the DB interface (writer) and to main (opens the DB), per hook, as the operator orders them
        probeBeforeDbNode = before(o.getActiveInterfaces("EveryNode"), probe.name, "database")
        probeBeforeDbEOL = before(o.getActiveInterfaces("EOL"), probe.name, "database")
        probeBeforeMainBOL = before(o.getActiveInterfaces("BOL"), probe.name, "main")
        # outside the quantifier: before the database is opened / after its finalisation at end-of-life
        if point and point[0] == "interactBOL" and probeBeforeMainBOL:
            return "skipped:before-db-open"
        if point and point[0] == "interactEOL" and not probeBeforeDbEOL:
            return "skipped:after-db-finalisation"
        raised = None
        quiet_stderr(True)
        try:
            with o:  # exactly as armi.cases.case.Case.run does
                o.operate()
        except InjectedFailure as e:
            raised = e
        except Exception as e:  # noqa: BLE001
            quiet_stderr(False)
            vio(False, "abort.run-error", "the run raised something other than the injected failure", dict(inp, error=repr(e)))
            return "checked"
        finally:
            quiet_stderr(False)
        if point is None:
            vio(raised is None, "complete.run", "a run without injected failure raised", inp)
        elif not vio(raised is not None and probe.failed is not None, "abort.raised", "the injected failure did not propagate out of the operator context", inp):
            return "checked"
        if point is not None and not probe.failed["db_open"]:
            # the quantifier speaks of failures while the database is open; cannot happen for the points kept above
            vio(False, "abort.db-not-open", "the database was not open at an interaction point between its opening and finalisation", dict(inp, at=probe.failed))
            return "checked"

        # ---- oracle: which snapshots were completed before the failure (naive walk of the run) ----
        walk = naive_walk()
        upto = walk.index(point) if point else len(walk)
        done = [(p[1], p[2]) for p in walk[:upto] if p[0] == "interactEveryNode"]
        if point and point[0] == "interactEveryNode" and not probeBeforeDbNode:
            done.append((point[1], point[2]))  # the writer ran before the failing interface at this node
        # marker each snapshot must carry: the last stamp the probe made before the writer ran at that node
        log = probe.log
        expMarker = {}
        for (c, n) in done:
            e = next(i for i, x in enumerate(log) if x["hook"] == "interactEveryNode" and (x["cycle"], x["node"]) == (c, n))
            if not probeBeforeDbNode:
                e -= 1
            expMarker[(c, n)] = log[e]["marker"] if e >= 0 else 0.0

        fname = o.cs.caseTitle + ".h5"
        tag = "abort" if point else "complete"
        if not vio(os.path.isfile(fname), tag + ".opens", "no database file in the working directory after the run", dict(inp, files=sorted(os.listdir(".")))):
            return "checked"
        try:
            h5 = h5py.File(fname, "r")
            rd = Database(fname, "r")
            rd.open()
        except Exception as e:  # noqa: BLE001
            vio(False, tag + ".opens", "the database file left by the run does not open", dict(inp, error=repr(e)))
            return "checked"
        try:
            flag = bool(h5.attrs["successfulCompletion"]) if "successfulCompletion" in h5.attrs else None
            if point:
                vio(flag is False, "abort.flag", "aborted run is not marked as NOT successfully completed", dict(inp, successfulCompletion=flag))
            else:
                vio(flag is True, "complete.flag", "completed run is not marked successful", dict(inp, successfulCompletion=flag))
            groups = sorted(k for k in h5.keys() if k != "inputs")
            plain = sorted(k for k in groups if re.match(r"^c\d\dn\d\d$", k))
            exp = sorted(getH5GroupName(c, n) for c, n in done)
            vio(plain == exp, tag + ".snapshots", "label-less snapshots in the file != snapshots completed before the failure / all nodes",
                dict(inp, present=plain, expected=exp))
            for (c, n) in done:
                nm = getH5GroupName(c, n)
                if nm in h5:
                    got = float(h5[nm]["Core"][MARK_CORE][0]) if MARK_CORE in h5[nm]["Core"] else 0.0
                    vio(same(got, expMarker[(c, n)]), tag + ".snapshot-state", "a completed snapshot does not hold the state at its write",
                        dict(inp, step=[c, n], marker_expected=expMarker[(c, n)], marker_in_file=got))
            if point:
                fc, fn = probe.failed["r_cycle"], probe.failed["r_node"]
                nm = getH5GroupName(fc, fn, "error")
                extra = [g for g in groups if g not in plain]
                if vio(nm in h5, "abort.error-snapshot", "no 'error'-labelled snapshot of the state at the failure", dict(inp, groups=groups, expected=nm)):
                    vio(extra == [nm], "abort.snapshots", "unexpected labelled snapshots besides the error state", dict(inp, labelled=extra))
                    try:
                        r2 = rd.load(fc, fn, statePointName="error")
                        got = [float(r2.core.p[MARK_CORE])] + [float(b.p[MARK_BLOCK]) for b in r2.core.getBlocks()]
                        vio(all(same(g, probe.failed["marker"]) for g in got) and (int(r2.p.cycle), int(r2.p.timeNode)) == (fc, fn),
                            "abort.error-state", "the error snapshot does not load to the state at the failure",
                            dict(inp, marker_expected=probe.failed["marker"], loaded=got))
                    except Exception as e:  # noqa: BLE001
                        vio(False, "abort.error-state", "the error snapshot does not load", dict(inp, error=repr(e)))
            else:
                lc, ln = NODES[-1]
                nm = getH5GroupName(lc, ln, "EOL")
                eolEntry = next(i for i, x in enumerate(log) if x["hook"] == "interactEOL")
                expEOL = log[eolEntry if probeBeforeDbEOL else eolEntry - 1]["marker"]
                if vio(nm in h5, "complete.eol", "completed run holds no end-of-life snapshot", dict(inp, groups=groups, expected=nm)):
                    got = float(h5[nm]["Core"][MARK_CORE][0])
                    vio(same(got, expEOL), "complete.eol", "the EOL snapshot does not hold the end-of-life state", dict(inp, marker_expected=expEOL, marker_in_file=got))
                vio([g for g in groups if g not in plain] == [nm], "complete.snapshots", "unexpected labelled snapshots in a completed run",
                    dict(inp, labelled=[g for g in groups if g not in plain]))
            # one completed snapshot through the real loader too
            if done:
                c, n = done[(pos + len(done)) % len(done)]
                try:
                    r2 = rd.load(c, n)
                    got = [float(r2.core.p[MARK_CORE])] + [float(b.p[MARK_BLOCK]) for b in r2.core.getBlocks()]
                    vio(all(same(g, expMarker[(c, n)]) for g in got) and (int(r2.p.cycle), int(r2.p.timeNode)) == (c, n), tag + ".snapshot-state",
                        "a completed snapshot does not load to the state at its write", dict(inp, step=[c, n], marker_expected=expMarker[(c, n)], loaded=got))
                except Exception as e:  # noqa: BLE001
                    vio(False, tag + ".snapshot-state", "a completed snapshot does not load", dict(inp, step=[c, n], error=repr(e)))
        finally:
            h5.close()
            rd.close()
        return "checked"


def n_positions():
    with workdir():
        o, _r = loadTestReactor(inputFilePath=INPUTS, inputFileName="armiRunSmallest.yaml", customSettings={
            "db": True, "fuelHandlerName": "", "detailAssemLocationsBOL": []})
        runLog.setVerbosity("error")
        names = [i.name for i in o.interfaces]
    return len(names) + 1, names


def clause_abort(thorough):
    npos, names = n_positions()
    B.extra["abort_stack"] = names
    allcases = [(pt, pos) for pt in crash_points() for pos in range(npos)]
    B.extra["abort_crash_points_total"] = len(allcases)
    dbpos = names.index("database")
    if thorough:
        cases = allcases
        complete = list(range(npos))
    else:
        # always: one failure right before and right after the writer at a mid-run node; rest seeded
        must = [(("interactEveryNode", 0, 1), dbpos), (("interactEveryNode", 1, 1), dbpos + 1), (("interactBOC", 1, None), dbpos + 1),
                (("interactEOL", None, None), dbpos), (("interactBOL", None, None), 1), (("interactEOC", 0, None), 0)]
        rest = [c for c in allcases if c not in must]
        cases = must + B.rng.sample(rest, 8)
        complete = [dbpos, dbpos + 1]
    skipped = collections.Counter()
    for pt, pos in cases:
        res = run_case(pt, pos)
        if res.startswith("skipped"):
            skipped[res.split(":")[1]] += 1
            STATS["abort_skipped_outside_quantifier"] += 1
            continue
        STATS["abort_runs"] += 1
        B.case(("abort", pt[0], pos, pt[1], pt[2]), quota("abort", {"clause": "abort", "hook": pt[0], "cycle": pt[1], "node": pt[2], "pos": pos}))
    for pos in complete:
        run_case(None, pos)
        STATS["complete_runs"] += 1
        B.case(("complete", pos), None)
    B.extra["abort_skipped_outside_quantifier"] = dict(skipped)
    B.extra["abort_enumeration_complete"] = bool(thorough)


# ---------------------------------------------------------------------------------------------------------------------
def finish():
    os.chdir(ORIG_CWD)
    gc.collect()
    ROOT.cleanup()
    B.extra["violation_counts"] = dict(VCOUNT)
    B.extra["stats"] = dict(STATS)
    sys.stdout.flush()
    os.dup2(_REAL_STDOUT, 1)


def main():
    if B.replay is not None:
        rp = B.replay
        if rp.get("clause") == "seq":
            SeqRun(rp["ops"]).run()
        elif rp.get("clause") == "abort":
            pt = (rp["hook"], rp.get("cycle"), rp.get("node")) if rp.get("hook") else None
            run_case(pt, rp["pos"])
        else:
            clause_naming()
        finish()
        print(json.dumps({"result": "fail" if VCOUNT else "pass", "violations": B.violations, "violation_counts": dict(VCOUNT)}, default=str))
        return
    t = time.time()
    clause_naming()
    B.extra["wall_naming_s"] = round(time.time() - t, 2)
    t = time.time()
    clause_abort(B.thorough())
    B.extra["wall_abort_s"] = round(time.time() - t, 2)
    t = time.time()
    if B.thorough():
        clause_sequences(591, 120, 10, 10)
    else:
        clause_sequences(21, 8, 6, 8)
    B.extra["wall_sequences_s"] = round(time.time() - t, 2)
    finish()
    B.finish(exhaustive=False)


main()
