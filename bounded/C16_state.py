"""C16 bounded tier: retained state is restored exactly; parameter copies are equal and independent; read-only is refused.

Executable contract on the smallest test reactor (reactor, core, spent-fuel pool, assembly, block, 7 components and their
materials) and on small generic composites that carry one parameter of every kind and a grid of every kind:

* retain.*   seeded scenarios of nested ``with obj.retainState(keep)`` scopes (depth <= 3, keep-set empty / one / many
             parameter definitions).  Inside a scope: assignments to parameters of every kind (scalar, numpy array same and
             different shape, list, dict, None, str, bool, Flags), in-place edits of array / list / dict values (non-kept
             only: an in-place edit is not an assignment), component number densities (setNumberDensity, setNumberDensities,
             changeNDensByFactor), temperatures (setTemperature, temperatureInC), dimensions, grid pitch (changePitch),
             grid bounds (block height + calculateZCoords, or the bounds tuple of a generic axial grid), grid offset, and
             cache-filling calls (getArea, getVolume, material.getProperty, _setCache).  A snapshot of EVERY parameter of EVERY
             object of the scenario (plus grids and caches) is taken at scope entry, before exit and after exit:
               - beneath the scope object: kept definitions hold the value they had just before exit, everything else the value
                 at entry (retain.kept-lost / retain.not-restored), grids are back (retain.grid, or retain.grid-nested when a
                 nested scope also covered that grid: DESIGN 5 F8), caches are those of entry (retain.cache-leak*);
               - outside the scope object nothing moves at exit (retain.frame);
               - entering / leaving never raises (retain.enter-raised, retain.exit-raised, and retain.keep-array-reshape when
                 a kept array parameter was given another shape inside the scope).
* copy.*     copy.deepcopy and pickle round trip of every object: every parameter of every node equal to the original
             (copy.values), then every value of the copy is edited (arrays / lists / dicts in place, scalars by assignment) and
             the original must not move, and the other way round (copy.not-independent.*).
* serial.*   a deep copy has serial numbers no live object holds (serial.deepcopy-not-fresh); over all objects created in the run
             and kept alive no serial number is shared (serial.shared); an unpickled clone living next to its original shares
             the original's numbers - reported under its own id (serial.shared-after-pickle).
* readonly.* after makeParametersReadOnly(r) (and Database.loadReadOnly) every object is read-only, every assignment route
             (attribute, item, component / block / assembly setters) raises and no value anywhere in the reactor changes
             (readonly.not-reached, readonly.accepted.<route>, readonly.value-changed.<route>, readonly.made-writeable).

``--replay '<input>'`` re-runs the scenario named by {"scenario": seed, "world": ...} or the deterministic check named by
{"check": ...}.
"""
import sys, os
sys.path.insert(0, os.path.dirname(os.path.abspath(__file__)))
import contextlib
import copy
import io
import json
import logging
import pickle
import random
import tempfile
import time

from common import Bounded

_TMP = tempfile.TemporaryDirectory(prefix="c16_")  # armi creates ./logs on import: keep that out of /verif
os.chdir(_TMP.name)
from common import armi_ready  # noqa: E402

armi_ready()
import numpy as np  # noqa: E402
from armi import runLog, utils  # noqa: E402
from armi.reactor import assemblies, blocks, composites, grids, parameters  # noqa: E402
from armi.reactor.components import Component  # noqa: E402
from armi.reactor.components.component import _DimensionLink  # noqa: E402
from armi.reactor.cores import Core  # noqa: E402
from armi.reactor.excoreStructure import ExcoreStructure  # noqa: E402
from armi.reactor.flags import Flags  # noqa: E402
from armi.reactor.parameters import parameterCollections  # noqa: E402
from armi.reactor.reactorParameters import makeParametersReadOnly  # noqa: E402
from armi.reactor.reactors import Reactor  # noqa: E402
from armi.utils.flags import Flag  # noqa: E402

runLog.setVerbosity("error")
logging.disable(logging.ERROR)
_REAL_STDOUT = sys.stdout
sys.stdout = io.StringIO()  # the last line of the real stdout must be the JSON record

B = Bounded(
    "seeded scenarios: a fresh copy of the smallest test reactor (or a generic 3-level composite with every parameter kind and "
    "hex / Cartesian / axial grids), a tree of nested retainState scopes (each on a random object: reactor, core, pool, assembly, "
    "block, component, generic) with a random keep-set, 2-9 random state edits per scope level; whole-scenario snapshots at "
    "entry / before exit / after exit of every scope; then copy (deepcopy, pickle) of every object with edit-the-copy / "
    "edit-the-original independence, serial-number census over all live objects, and every assignment route on a read-only "
    "reactor (made read-only, and loaded read-only from a database); distinct = distinct (scenario seed, scope path) / "
    "(copied object, how) / (read-only object, parameter, route)",
    "nesting depth <= 3; keep-sets {empty, one, many<=6 definitions}; <= 9 edits per level; scenarios quick 520+170 / thorough "
    "9000+3000 (reactor+generic); objects: 1 reactor, 1 core, 1 pool, 1 assembly, 1 block, 7 components (12 materials/grids), "
    "generic <= 7 nodes; all ~700 parameters of the reactor for the read-only and copy clauses",
)
THOROUGH = B.thorough()
T0 = time.time()
C0 = time.thread_time()  # budgets in CPU seconds of this thread (independent of machine load)
BUDGET = 1050 if THOROUGH else 75
COUNTS, SKIPS, ACTIONS, BODY_RAISED = {}, {}, {}, {}
LIVE = []  # every armi object created in this run is kept alive here: (object, origin, clone-of or None)


def report(vid, what, inp):
    COUNTS[vid] = COUNTS.get(vid, 0) + 1
    if COUNTS[vid] <= 2:
        B.violation(vid, what, inp)


def bump(d, k):
    d[k] = d.get(k, 0) + 1


# ------------------------------------------------------------------------------------------------ snapshots
MISSING = ("<missing>",)


def freeze(v):
    """A hashable, alias-free image of a parameter value (NaN-safe, shape- and dtype-exact for arrays).

    Real scalars are compared by value whatever their class (0.0, numpy.float64(0.0), 0 and False are one value): armi keeps a
    kept parameter's old object when the new value compares equal to it, and the statement speaks of values, not classes.
    """
    if v is None or isinstance(v, str):
        return v
    if isinstance(v, (bool, np.bool_)):
        return ("f", repr(float(bool(v))))
    if isinstance(v, (int, np.integer)):
        return ("f", repr(float(v))) if abs(int(v)) < 2 ** 53 else ("int", int(v))
    if isinstance(v, (float, np.floating)):
        return ("f", repr(float(v)))
    if isinstance(v, np.ndarray):
        if v.dtype == object:
            return ("nd-obj", v.shape, tuple(freeze(x) for x in v.ravel().tolist()))
        return ("nd", v.dtype.str, v.shape, v.tobytes())
    if isinstance(v, np.generic):
        return ("np", v.dtype.str, repr(v.item()))
    if isinstance(v, _DimensionLink):
        return ("link", v[0].name, v[1])
    if isinstance(v, dict):
        return ("dict", tuple(sorted((repr(k), freeze(x)) for k, x in v.items())))
    if isinstance(v, (list, tuple)):
        return (type(v).__name__, tuple(freeze(x) for x in v))
    if isinstance(v, Flag):
        return ("flags", v._value)
    if isinstance(v, type):
        return ("class", v.__name__)
    if isinstance(v, composites.ArmiObject):
        return ("armi", type(v).__name__, v.name)
    return ("obj", type(v).__name__, repr(v)[:60])


def thaw(fr):
    """A readable (JSON-able) form of a frozen value."""
    if isinstance(fr, tuple) and fr:
        tag = fr[0]
        if tag == "nd":
            return np.frombuffer(fr[3], dtype=np.dtype(fr[1])).reshape(fr[2]).tolist()
        if tag in ("f", "np"):
            return fr[-1]
        if tag == "dict":
            return {k: thaw(v) for k, v in fr[1]}
        if tag in ("list", "tuple"):
            return [thaw(x) for x in fr[1]]
        if tag == "nd-obj":
            return [thaw(x) for x in fr[2]]
        if fr is MISSING:
            return "<missing>"
        return "<%s>" % " ".join(str(x) for x in fr)
    return fr


def show(fr):
    s = json.dumps(thaw(fr), default=str)
    return s if len(s) <= 300 else s[:297] + "..."


def kids(o):
    return list(o.__dict__.get("_children", ()))


def walk(o):
    out = [o]
    for c in kids(o):
        out += walk(c)
    return out


def snap(nodes):
    S = {}
    for i, o in enumerate(nodes):
        d = o.p.__dict__
        for pd in o.p.paramDefs:
            S[(i, pd.name)] = freeze(d.get(pd.fieldName, MISSING))
        g = o.spatialGrid
        if g is not None:
            S[(i, "<grid>")] = freeze((g._unitSteps, g._bounds, g._offset))
        S[(i, "<cached>")] = freeze(dict(o.cached))
        m = getattr(o, "material", None)
        if m is not None and hasattr(m, "cached"):
            S[(i, "<matcache>")] = freeze(dict(m.cached))
    return S


def lab(nodes, i):
    o = nodes[i]
    return "%d:%s:%s" % (i, type(o).__name__, o.name)


# ------------------------------------------------------------------------------------------------ worlds
def _kindDefs():
    d = parameters.ParameterDefinitionCollection()
    with d.createBuilder() as pb:
        pb.defParam("type", units=utils.units.UNITLESS, description="type name")
        pb.defParam("scalar", units=utils.units.UNITLESS, description="a float", default=0.0)
        pb.defParam("count", units=utils.units.UNITLESS, description="an int", default=0)
        pb.defParam("arr", units=utils.units.UNITLESS, description="a numpy array", default=None)
        pb.defParam("arr32", units=utils.units.UNITLESS, description="a float32 array", default=None, setter=parameters.parameterDefinitions.isNumpyF32Array("arr32"))
        pb.defParam("lst", units=utils.units.UNITLESS, description="a list", default=None)
        pb.defParam("dct", units=utils.units.UNITLESS, description="a dict", default=None)
        pb.defParam("txt", units=utils.units.UNITLESS, description="a string", default="")
        pb.defParam("none", units=utils.units.UNITLESS, description="stays None unless assigned", default=None)
        pb.defParam("flag", units=utils.units.UNITLESS, description="a bool", default=False)
        pb.defParam("nodefault", units=utils.units.UNITLESS, description="no default")
    return d


class GenS(composites.Composite):
    """A plain Composite carrying one parameter of every kind."""

    pDefs = _kindDefs()


_BASE = {}


def base_reactor():
    if "r" not in _BASE:
        from armi.reactor.tests.test_reactors import loadTestReactor

        with contextlib.redirect_stdout(io.StringIO()):
            o, r = loadTestReactor(inputFileName="smallestTestReactor/armiRunSmallest.yaml")
        runLog.setVerbosity("error")
        _BASE["r"], _BASE["o"] = r, o
        for n in walk(r):
            LIVE.append((n, "built", None))
    return _BASE["r"]


def new_reactor():
    r = copy.deepcopy(base_reactor())
    for n in walk(r):
        LIVE.append((n, "deepcopy", None))
    return r


def new_generic(rng):
    def mk(name, typ):
        g = GenS(name)
        g.setType(typ)
        g.p.scalar = rng.random()
        g.p.arr = np.arange(3.0) + rng.randint(0, 5)
        g.p.lst = [1.0, 2.0]
        g.p.dct = {"a": 1.0, "b": [1, 2]}
        g.p.txt = name
        return g

    root, a, b, c, d, e = mk("root", "fuel"), mk("a", "fuel"), mk("b", "clad"), mk("c", "duct"), mk("d", "fuel"), mk("e", "control")
    root.spatialGrid = grids.HexGrid.fromPitch(1.0, numRings=2, armiObject=root)
    a.spatialGrid = grids.AxialGrid.fromNCells(3, armiObject=a)
    b.spatialGrid = grids.CartesianGrid.fromRectangle(1.0, 2.0, numRings=2, isOffset=True, armiObject=b)
    for p, k in ((root, a), (root, b), (a, c), (a, d), (b, e)):
        p.add(k)
    a.spatialLocator = root.spatialGrid[0, 0, 0]
    b.spatialLocator = root.spatialGrid[1, 0, 0]
    c.spatialLocator = a.spatialGrid[0, 0, 0]
    d.spatialLocator = a.spatialGrid[0, 0, 1]
    for n in walk(root):
        LIVE.append((n, "built", None))
    return root


# ------------------------------------------------------------------------------------------------ edits inside a scope
SKIP = object()


def new_value(old, rng, reshape):
    """A value different from ``old`` of the same kind (or, for None / unset, of a random kind)."""
    if old is MISSING or old is None or isinstance(old, type):
        k = rng.choice(["float", "array", "list", "dict", "str", "int"])
        return {"float": 1.5 + rng.random(), "array": np.arange(1.0, 4.0) * (1 + rng.randint(0, 3)), "list": [rng.random(), 2.0],
                "dict": {"U235": rng.random(), "k": [1, 2]}, "str": "s%d" % rng.randint(0, 99), "int": rng.randint(1, 9)}[k]
    if isinstance(old, bool):
        return not old
    if isinstance(old, (float, np.floating, np.ndarray, list, dict)) and not (isinstance(old, np.ndarray) and old.dtype.kind not in "fiu") and rng.random() < 0.06:
        return None  # the property's parameter kind `None`: a value is REPLACED BY None inside the scope (and must come back)
    if isinstance(old, (int, np.integer)):
        return int(old) + rng.randint(1, 5)
    if isinstance(old, (float, np.floating)):
        return rng.choice([float(old) * 1.5 + 1.0, float(old) + 0.25, -float(old) - 1.0, float("nan") if rng.random() < 0.1 else 7.0])
    if isinstance(old, str):
        return old + "x"
    if isinstance(old, np.ndarray):
        if old.dtype.kind not in "fiu":
            return SKIP
        if reshape and rng.random() < 0.5:
            return np.arange(float(old.size + 1 + rng.randint(0, 2)))
        return (old + 1 + rng.randint(0, 3)).astype(old.dtype)
    if isinstance(old, _DimensionLink):
        return SKIP
    if isinstance(old, list):
        return list(old) + [rng.random()]
    if isinstance(old, tuple):
        return SKIP
    if isinstance(old, dict):
        d = dict(old)
        d["n%d" % rng.randint(0, 9)] = rng.random()
        return d
    if isinstance(old, Flag):
        return rng.choice([Flags.FUEL | Flags.INNER, Flags.CLAD, Flags.DUCT | Flags.CONTROL, Flags.FUEL])
    return SKIP


def edit_in_place(v, rng):
    """Change a mutable value without assigning it; returns False when the value cannot be edited in place."""
    if isinstance(v, np.ndarray) and v.size and v.dtype.kind in "fiu" and v.flags.writeable:
        v.flat[rng.randrange(v.size)] += 1
        return True
    if isinstance(v, list):
        v.append(12345.0)
        return True
    if isinstance(v, dict):
        v["c16-%d" % rng.randint(0, 9)] = rng.random()
        return True
    return False


class Scenario:
    def __init__(self, world, seed):
        self.world, self.seed, self.rng = world, seed, random.Random(seed)
        self.root = new_reactor() if world == "reactor" else new_generic(self.rng)
        self.nodes = walk(self.root)
        self.idx = {id(o): i for i, o in enumerate(self.nodes)}
        self.trace = []
        self.open = []  # stack of open scopes: dict(root idx, subtree idx set, keep, nested grid owners)
        self.reshape = self.rng.random() < 0.06
        self.dead = False
        self.reshaped_kept = False

    def inp(self, **kw):
        d = {"scenario": self.seed, "world": self.world, "trace": self.trace[-25:]}
        d.update(kw)
        return d

    def note(self, s):
        self.trace.append(s)

    def kept_now(self, pd):
        """Is this definition kept by any scope that is open now?  (In-place edits are only made to values of definitions no
        open scope keeps: an in-place edit is not an assignment, so the statement makes no claim about keeping it.)"""
        return any(any(pd is k for k in sc["keep"]) for sc in self.open)

    # ---- one random edit; every exception of the edited armi code inside the body is recorded, not hidden
    def edit(self, scope_nodes):
        rng = self.rng
        targets = scope_nodes if rng.random() < 0.9 else self.nodes
        o = rng.choice(targets)
        i = self.idx[id(o)]
        kind = rng.choices(["param", "kept", "inplace", "comp", "grid", "cache", "bounds"], weights=[30, 18, 12, 18, 10, 8, 4])[0]
        try:
            if kind in ("param", "kept"):
                pds = [pd for pd in o.p.paramDefs if pd.name != "serialNum"]
                if kind == "kept":
                    keeps = [pd for pd in pds if self.kept_now(pd)]
                    if not keeps:
                        cand = [(n, pd) for n in scope_nodes for pd in n.p.paramDefs if pd.name != "serialNum" and self.kept_now(pd)]
                        if not cand:
                            return
                        o, pd = rng.choice(cand)
                        i = self.idx[id(o)]
                    else:
                        pd = rng.choice(keeps)
                else:
                    pd = rng.choice(pds)
                old = o.p.__dict__.get(pd.fieldName, MISSING)
                new = new_value(old, rng, self.reshape or not self.kept_now(pd))
                if new is SKIP:
                    bump(SKIPS, "value-kind-not-assignable")
                    return
                if rng.random() < 0.5:
                    setattr(o.p, pd.name, new)
                else:
                    o.p[pd.name] = new
                if self.kept_now(pd) and isinstance(new, np.ndarray) and isinstance(old, (np.ndarray, list)) and np.shape(old) != new.shape:
                    self.reshaped_kept = True
                self.note("%s.p.%s = %s" % (lab(self.nodes, i), pd.name, show(freeze(new))))
                bump(ACTIONS, "assign:" + type(new).__name__ + ("(kept)" if self.kept_now(pd) else ""))
            elif kind == "inplace":
                cand = [pd for pd in o.p.paramDefs if isinstance(o.p.__dict__.get(pd.fieldName), (np.ndarray, list, dict)) and not self.kept_now(pd)]
                if cand:
                    pd = rng.choice(cand)
                    if edit_in_place(o.p.__dict__[pd.fieldName], rng):
                        self.note("%s.p.%s edited in place" % (lab(self.nodes, i), pd.name))
                        bump(ACTIONS, "inplace:" + type(o.p.__dict__[pd.fieldName]).__name__)
            elif kind == "comp":
                comps = [n for n in targets if isinstance(n, Component)]
                if not comps:
                    return
                c = rng.choice(comps)
                ci = lab(self.nodes, self.idx[id(c)])
                how = rng.choice(["setNumberDensity", "setNumberDensities", "changeNDensByFactor", "setTemperature", "temperatureInC", "setDimension"])
                nd = c.p.numberDensities
                if any(self.kept_now(c.p.paramDefs[n]) for n in ("numberDensities",)) and how == "setNumberDensity":
                    how = "setNumberDensities"  # setNumberDensity edits the dict in place: not an assignment of a kept parameter
                if how == "setNumberDensity":
                    nuc = rng.choice(sorted(nd) + ["PU239"]) if isinstance(nd, dict) and nd else "U235"
                    c.setNumberDensity(nuc, rng.random() * 0.05)
                elif how == "setNumberDensities":
                    c.setNumberDensities({"U235": rng.random() * 0.01, "ZR90": rng.random() * 0.01})
                elif how == "changeNDensByFactor":
                    c.changeNDensByFactor(0.5 + rng.random())
                elif how == "setTemperature":
                    c.setTemperature(300.0 + 400.0 * rng.random())
                elif how == "temperatureInC":
                    c.temperatureInC = 300.0 + 400.0 * rng.random()
                else:
                    dims = [k for k in c.DIMENSION_NAMES if isinstance(c.p.__dict__.get("_p_" + k), float) and k != "mult"]
                    if not dims:
                        return
                    k = rng.choice(dims)
                    c.setDimension(k, c.p[k] * (0.9 + 0.2 * rng.random()))
                self.note("%s.%s(...)" % (ci, how))
                bump(ACTIONS, "component:" + how)
            elif kind == "grid":
                owners = [n for n in targets if n.spatialGrid is not None]
                if not owners:
                    return
                n = rng.choice(owners)
                g = n.spatialGrid
                ni = lab(self.nodes, self.idx[id(n)])
                if isinstance(g, grids.HexGrid):
                    p = round(0.5 + 3 * rng.random(), 3)
                    g.changePitch(p)
                    self.note("%s.spatialGrid.changePitch(%s)" % (ni, p))
                    bump(ACTIONS, "grid:hex-pitch")
                elif isinstance(g, grids.CartesianGrid):
                    p = round(0.5 + 3 * rng.random(), 3)
                    g.changePitch(p, p + 1)
                    self.note("%s.spatialGrid.changePitch(%s, %s)" % (ni, p, p + 1))
                    bump(ACTIONS, "grid:cartesian-pitch")
                else:
                    g.offset = np.array([rng.random(), 0.0, rng.random()])
                    self.note("%s.spatialGrid.offset = ..." % ni)
                    bump(ACTIONS, "grid:offset")
            elif kind == "bounds":
                asm = [n for n in targets if isinstance(n, assemblies.Assembly) and len(n)]
                if asm:
                    a = rng.choice(asm)
                    if not self.kept_now(a[0].p.paramDefs["height"]):
                        a[0].p.height = a[0].p.height * (1.1 + rng.random())
                    a.calculateZCoords()
                    self.note("%s: block height changed; calculateZCoords()" % lab(self.nodes, self.idx[id(a)]))
                    bump(ACTIONS, "grid:bounds-calculateZCoords")
                else:
                    ax = [n for n in targets if isinstance(n.spatialGrid, grids.AxialGrid)]
                    if ax:
                        n = rng.choice(ax)
                        z = np.cumsum([0.0] + [1.0 + rng.random() for _ in range(3)])
                        n.spatialGrid._bounds = (None, None, z)
                        self.note("%s.spatialGrid bounds = %s" % (lab(self.nodes, self.idx[id(n)]), z.tolist()))
                        bump(ACTIONS, "grid:bounds-axial")
            else:
                how = rng.choice(["_setCache", "getArea", "getVolume", "getProperty", "clearCache"])
                if how == "_setCache":
                    o._setCache("c16-%d" % rng.randint(0, 3), rng.random())
                elif how == "getArea" and isinstance(o, blocks.Block):
                    o.getArea()
                elif how == "getVolume" and isinstance(o, (Component, blocks.Block)):
                    o.getVolume()
                elif how == "getProperty" and isinstance(o, Component):
                    o.material.getProperty("pseudoDensity", Tc=300.0 + rng.randint(0, 400))
                elif how == "clearCache":
                    o.clearCache()
                else:
                    return
                self.note("%s.%s()" % (lab(self.nodes, i), how))
                bump(ACTIONS, "cache:" + how)
        except Exception as e:  # noqa: BLE001  (armi refusing / failing an edit on an odd state is not this property's concern)
            bump(BODY_RAISED, "%s:%s" % (kind, type(e).__name__))

    # ---- a scope, recursively
    def scope(self, depth, path):
        if self.dead:
            return
        rng = self.rng
        weights = []
        for n in self.nodes:
            w = {Reactor: 2, Core: 3, assemblies.HexAssembly: 4, blocks.HexBlock: 5, GenS: 4}.get(type(n), 1.2 if isinstance(n, Component) else 1)
            weights.append(w)
        O = rng.choices(self.nodes, weights=weights)[0]
        sub = walk(O)
        subIdx = {self.idx[id(n)] for n in sub}
        pool = []
        for n in sub:
            for pd in n.p.paramDefs:
                if pd.name != "serialNum" and not any(pd is q for q in pool):
                    pool.append(pd)
        likely = [pd for pd in pool if pd.name in ("numberDensities", "temperatureInC", "volume", "height", "mgFlux", "power", "keff", "scalar", "arr", "arr32", "lst", "dct", "txt",
                                                  "none", "flag", "count", "type", "flags", "od", "id", "mult", "detailedNDens", "percentBuByPin", "THcornTemp", "cycle", "time", "nodefault")]
        ks = rng.choice(["empty", "one", "many"])
        if ks == "empty":
            keep = []
        elif ks == "one":
            keep = [rng.choice(likely if likely and rng.random() < 0.7 else pool)]
        else:
            keep = rng.sample(pool, min(len(pool), rng.randint(2, 6)))
            if likely:
                keep += rng.sample(likely, min(len(likely), 2))
        oi = self.idx[id(O)]
        self.note("%swith %s.retainState(%s):" % ("  " * (depth - 1), lab(self.nodes, oi), [pd.name for pd in keep]))
        B.case(("scope", self.world, self.seed, path), sample={"scenario": self.seed, "world": self.world, "scope": lab(self.nodes, oi), "keep": [pd.name for pd in keep], "depth": depth})
        bump(ACTIONS, "scope:%s:keep-%s:depth-%d" % (type(O).__name__ if not isinstance(O, Component) else "Component", ks, depth))
        entry = snap(self.nodes)
        sr = O.retainState(keep if ks != "empty" or rng.random() < 0.5 else None)
        try:
            sr.__enter__()
        except Exception as e:  # noqa: BLE001
            report("retain.enter-raised", "opening the scope raised %r" % e, self.inp(scope=lab(self.nodes, oi)))
            self.dead = True
            return
        me = {"root": oi, "sub": subIdx, "keep": keep, "nestedGrids": set()}
        for sc in self.open:
            sc["nestedGrids"] |= {i for i in subIdx if self.nodes[i].spatialGrid is not None}
        self.open.append(me)
        nEdits = rng.randint(2, 9)
        nestAt = rng.randrange(nEdits) if depth < 3 and rng.random() < (0.65 if depth == 1 else 0.5) else -1
        k = 0
        for e in range(nEdits):
            self.edit(sub)
            if e == nestAt:
                self.scope(depth + 1, path + (k,))
                k += 1
                if self.dead:
                    return
                if rng.random() < 0.25 and depth < 3:
                    self.scope(depth + 1, path + (k,))
                    if self.dead:
                        return
        before = snap(self.nodes)
        try:
            sr.__exit__(None, None, None)
        except Exception as e:  # noqa: BLE001
            vid = "retain.keep-array-reshape" if self.reshaped_kept and isinstance(e, ValueError) else "retain.exit-raised"
            report(vid, "leaving the scope raised %r (the remaining objects of the scope are then never restored)" % e, self.inp(scope=lab(self.nodes, oi), keep=[pd.name for pd in keep]))
            self.dead = True  # the state is undefined from here on
            return
        self.open.pop()
        after = snap(self.nodes)
        self.note("%s# left scope on %s" % ("  " * (depth - 1), lab(self.nodes, oi)))
        self.compare(entry, before, after, me, depth)

    def compare(self, entry, before, after, me, depth):
        nodes = self.nodes
        for key in after:
            i, name = key
            got = after[key]
            inside = i in me["sub"]
            if not inside:
                exp, vid, what = before.get(key, MISSING), "retain.frame", "an object outside the scope changed when the scope ended"
            elif name == "<grid>":
                exp = entry.get(key, MISSING)
                vid = "retain.grid-nested" if i in me["nestedGrids"] else "retain.grid"
                what = "grid steps / bounds / offset are not those of scope entry"
            elif name == "<cached>":
                exp, vid, what = entry.get(key, MISSING), "retain.cache-leak", "obj.cached after the scope is not the cache of scope entry"
            elif name == "<matcache>":
                exp = entry.get(key, MISSING)
                vid = "retain.cache-leak.material-of-scope-root" if i == me["root"] else "retain.cache-leak.material"
                what = "material cache after the scope is not the cache of scope entry"
            else:
                pd = nodes[i].p.paramDefs[name]
                if any(pd is k for k in me["keep"]):
                    exp, vid, what = before.get(key, MISSING), "retain.kept-lost", "a kept parameter does not hold the value it had just before the scope ended"
                else:
                    exp, vid, what = entry.get(key, MISSING), "retain.not-restored", "a parameter that is not kept does not hold its value of scope entry"
            if got != exp:
                report(vid, what, self.inp(object=lab(nodes, i), parameter=name, got=show(got), expected=show(exp), at_entry=show(entry.get(key, MISSING)),
                                           before_exit=show(before.get(key, MISSING)), depth=depth, scope=lab(nodes, me["root"]), keep=[pd.name for pd in me["keep"]]))


def run_scenario(world, seed):
    try:
        s = Scenario(world, seed)
        s.scope(1, ())
        if not s.dead and s.rng.random() < 0.4:
            s.scope(1, (99,))
    except Exception as e:  # noqa: BLE001
        import traceback

        tb = traceback.extract_tb(e.__traceback__)
        report("harness.scenario-crashed", "the scenario harness raised %r" % e,
               {"scenario": seed, "world": world, "where": ["%s:%d %s" % (os.path.basename(f.filename), f.lineno, f.name) for f in tb[-4:]]})


# ------------------------------------------------------------------------------------------------ deterministic scenarios
def det_grid_nested():
    """DESIGN 5 F8: pitch 1 -> (scope) 2 -> (nested scope) 3: leaving both scopes must give 2, then 1."""
    r = new_reactor()
    g = r.core.spatialGrid
    B.case(("det", "grid-nested"))
    g.changePitch(1.0)
    p0 = g.pitch
    with r.core.retainState():
        g.changePitch(2.0)
        p1 = g.pitch
        with r.core.retainState():
            g.changePitch(3.0)
        pin = g.pitch
    pout = g.pitch
    if abs(pin - p1) > 1e-9 or abs(pout - p0) > 1e-9:
        report("retain.grid-nested", "nested scopes do not unwind the grid pitch last-in first-out",
               {"check": "grid-nested", "pitch_before": p0, "in_outer": p1, "after_inner_scope": pin, "after_outer_scope": pout,
                "repro": "g=r.core.spatialGrid; g.changePitch(1.0)\nwith r.core.retainState():\n    g.changePitch(2.0)\n    with r.core.retainState():\n        g.changePitch(3.0)\nassert g.pitch == 1.0"})
    # one level only must work
    r = new_reactor()
    g = r.core.spatialGrid
    p0 = g.pitch
    with r.core.retainState():
        g.changePitch(2.0)
    if abs(g.pitch - p0) > 1e-9:
        report("retain.grid", "a single scope does not restore the grid pitch", {"check": "grid-nested", "before": p0, "after": g.pitch})


def det_keep_reshape():
    r = new_reactor()
    b = r.core[0][0]
    pd = b.p.paramDefs["mgFlux"]
    other = b.p.paramDefs["power"]
    B.case(("det", "keep-reshape"))
    b.p.mgFlux = np.array([1.0, 2.0, 3.0])
    b.p.power = 1.0
    new = np.array([1.0, 2.0, 3.0, 4.0])
    try:
        with r.core[0].retainState([pd]):
            b.p.mgFlux = new
            b.p.power = 2.0
            b[0].p.temperatureInC = 123.0
        bad = None
    except Exception as e:  # noqa: BLE001
        bad = e
    ok = bad is None and freeze(b.p.mgFlux) == freeze(new) and b.p.power == 1.0 and b[0].p.temperatureInC != 123.0
    if not ok:
        report("retain.keep-array-reshape", "a kept array parameter re-assigned with another shape: leaving the scope raised %r / kept value lost / siblings not restored" % bad,
               {"check": "keep-reshape", "mgFlux_after": show(freeze(b.p.mgFlux)), "power_after": b.p.power, "component_temperature_after": b[0].p.temperatureInC,
                "repro": "b=r.core[0][0]; b.p.mgFlux=np.arange(3.); pd=b.p.paramDefs['mgFlux']\nwith b.retainState([pd]):\n    b.p.mgFlux=np.arange(4.)"})


def det_material_cache():
    r = new_reactor()
    f = r.core[0][0][0]
    B.case(("det", "material-cache"))
    before = freeze(dict(f.material.cached))
    with f.retainState():
        f.material.getProperty("pseudoDensity", Tc=401.0)
    if freeze(dict(f.material.cached)) != before:
        report("retain.cache-leak.material-of-scope-root", "a material property cached inside a scope opened on the component itself is still cached after the scope",
               {"check": "material-cache", "repro": "c=r.core[0][0][0]\nwith c.retainState():\n    c.material.getProperty('pseudoDensity', Tc=401.0)\nassert 'pseudoDensity' value in c.material.cached is the old one"})
    b = r.core[0][0]
    before = freeze(dict(f.material.cached))
    with b.retainState():
        f.material.getProperty("pseudoDensity", Tc=402.0)
    if freeze(dict(f.material.cached)) != before:
        report("retain.cache-leak.material", "a material property cached inside a block scope leaked", {"check": "material-cache"})


# ------------------------------------------------------------------------------------------------ copies, serial numbers
def mutate_everything(nodes, rng):
    """Edit every parameter value: arrays / lists / dicts in place, everything else by assignment."""
    n = 0
    for o in nodes:
        for pd in o.p.paramDefs:
            v = o.p.__dict__.get(pd.fieldName, MISSING)
            if edit_in_place(v, rng):
                n += 1
                continue
            if pd.name == "serialNum":
                continue
            new = new_value(v, rng, True)
            if new is SKIP:
                continue
            try:
                setattr(o.p, pd.name, new)
                n += 1
            except Exception:  # noqa: BLE001
                bump(SKIPS, "copy-edit-refused")
    return n


def seed_kinds(nodes, rng):
    """Give the objects values of every kind first (the reactor as loaded holds almost only floats)."""
    for o in nodes:
        pds = [pd for pd in o.p.paramDefs if o.p.__dict__.get(pd.fieldName, MISSING) is None]
        for pd, val in zip(rng.sample(pds, min(len(pds), 5)), [np.arange(4.0), [1.0, [2.0]], {"a": 1.0, "b": {"c": 2}}, "text", np.ones((2, 2))]):
            try:
                setattr(o.p, pd.name, val)
            except Exception:  # noqa: BLE001
                pass


def check_copies(rng):
    npos = len(walk(base_reactor()))
    plan = [("reactor", k) for k in range(npos)] + [("generic", k) for k in range(6)]
    for world, k in plan:
        for how in ("deepcopy", "pickle"):
            root = new_reactor() if world == "reactor" else new_generic(rng)
            allNodes = walk(root)
            seed_kinds(allNodes, rng)
            X = allNodes[k]
            live_serials = {n.p.serialNum for n, _o, _c in LIVE}
            try:
                Y = copy.deepcopy(X) if how == "deepcopy" else pickle.loads(pickle.dumps(X))
            except Exception as e:  # noqa: BLE001
                report("copy.raised", "%s of %s raised %r" % (how, type(X).__name__, e), {"check": "copy", "object": "%s:%s" % (type(X).__name__, X.name), "how": how})
                continue
            xs, ys = walk(X), walk(Y)
            for n, m in zip(xs, ys):
                LIVE.append((m, how, n if how == "pickle" else None))
            B.case(("copy", world, k, how), sample={"copy": "%s:%s" % (type(X).__name__, X.name), "how": how, "nodes": len(xs)})
            where = {"check": "copy", "world": world, "object": "%d:%s:%s" % (k, type(X).__name__, X.name), "how": how}
            if len(xs) != len(ys):
                report("copy.values", "the copy has another number of nodes", where)
                continue
            sx, sy = snap(xs), snap(ys)
            for key in sx:
                if key[1] in ("<cached>", "<matcache>"):
                    continue
                if key[1] == "serialNum":
                    if how == "deepcopy":
                        if ys[key[0]].p.serialNum in live_serials:
                            report("serial.deepcopy-not-fresh", "a deep copy holds a serial number of a live object", dict(where, node=lab(ys, key[0]), serial=ys[key[0]].p.serialNum))
                        continue
                if sx[key] != sy.get(key, MISSING):
                    report("copy.values", "a parameter of the copy differs from the original", dict(where, node=lab(xs, key[0]), parameter=key[1], original=show(sx[key]), copy=show(sy.get(key, MISSING))))
            # independence: edit the copy, the original must not move; then the other way round
            sAll = snap(allNodes)
            mutate_everything(ys, rng)
            sAll2 = snap(allNodes)
            for key in sAll:
                if sAll[key] != sAll2[key]:
                    fr = sAll[key]
                    kindName = fr[0] if isinstance(fr, tuple) else type(fr).__name__
                    report("copy.not-independent.%s" % how, "editing the copy changed the original", dict(where, node=lab(allNodes, key[0]), parameter=key[1], kind=kindName, before=show(fr), after=show(sAll2[key])))
            sy = snap(ys)
            mutate_everything(allNodes, rng)
            sy2 = snap(ys)
            for key in sy:
                if sy[key] != sy2[key]:
                    fr = sy[key]
                    kindName = fr[0] if isinstance(fr, tuple) else type(fr).__name__
                    report("copy.not-independent.%s" % how, "editing the original changed the copy", dict(where, node=lab(ys, key[0]), parameter=key[1], kind=kindName, before=show(fr), after=show(sy2[key])))


def serial_census():
    seen, bySerial = set(), {}
    for o, origin, cloneOf in LIVE:
        if id(o) in seen:
            continue
        seen.add(id(o))
        bySerial.setdefault(o.p.serialNum, []).append((o, origin, cloneOf))
    B.extra["live_objects"] = len(seen)
    B.extra["distinct_serial_numbers"] = len(bySerial)
    B.case(("serial-census",), sample={"live_objects": len(seen)})
    for s, group in bySerial.items():
        if len(group) < 2:
            continue
        originals = [g for g in group if g[1] != "pickle"]
        clonesOk = all(g[1] == "pickle" and any(g[2] is o[0] for o in originals) for g in group if g[1] == "pickle")
        desc = ["%s:%s (%s)" % (type(g[0]).__name__, g[0].name, g[1]) for g in group][:4]
        if len(originals) <= 1 and clonesOk:
            report("serial.shared-after-pickle", "an unpickled clone and its (still live) original hold the same serial number", {"check": "serial", "serial": s, "objects": desc,
                   "repro": "b2 = pickle.loads(pickle.dumps(b)); assert b2.p.serialNum != b.p.serialNum"})
        else:
            report("serial.shared", "two live objects hold the same serial number", {"check": "serial", "serial": s, "objects": desc})


# ------------------------------------------------------------------------------------------------ read-only
def readonly_routes(r, label, rng):
    nodes = walk(r)
    for i, o in enumerate(nodes):
        if o.p.readOnly is not True:
            report("readonly.not-reached", "an object of the reactor is not read-only", {"check": label, "object": lab(nodes, i)})
    S0 = snap(nodes)

    def attempt(route, i, pname, fn):
        B.case((label, i, pname, route))
        try:
            fn()
            raised = None
        except Exception as e:  # noqa: BLE001
            raised = e
        S1 = snap(nodes)
        changed = [k for k in S0 if S0[k] != S1.get(k) and k[1] not in ("<cached>", "<matcache>")]
        where = {"check": label, "object": lab(nodes, i), "parameter": pname, "route": route, "raised": repr(raised)}
        if changed:
            report("readonly.value-changed." + route, "a value of the read-only reactor changed", dict(where, changed=[[lab(nodes, k[0]), k[1], show(S0[k]), show(S1[k])] for k in changed[:3]]))
            S0.update(S1)
        if raised is None:
            report("readonly.accepted." + route, "an assignment on a read-only object did not raise", where)

    for i, o in enumerate(nodes):
        for pd in o.p.paramDefs:
            old = o.p.__dict__.get(pd.fieldName, MISSING)
            new = new_value(old, rng, True)
            if new is SKIP:
                new = 1.0
            attempt("setattr", i, pd.name, lambda: setattr(o.p, pd.name, new))
            attempt("setitem", i, pd.name, lambda: o.p.__setitem__(pd.name, new))
        B.case((label, i, "readOnly", "unset"))
        try:
            o.p.readOnly = False
        except Exception:  # noqa: BLE001
            pass
        if o.p.readOnly is not True:
            report("readonly.made-writeable", "readOnly could be switched off", {"check": label, "object": lab(nodes, i)})
        if isinstance(o, Component):
            attempt("setNumberDensity", i, "numberDensities", lambda: o.setNumberDensity("U235", 0.0123))
            attempt("setNumberDensities", i, "numberDensities", lambda: o.setNumberDensities({"U235": 0.0123}))
            attempt("changeNDensByFactor", i, "numberDensities", lambda: o.changeNDensByFactor(1.1))
            attempt("setTemperature", i, "temperatureInC", lambda: o.setTemperature(o.temperatureInC + 10.0))
            attempt("temperatureInC", i, "temperatureInC", lambda: setattr(o, "temperatureInC", 321.0))
            attempt("setType", i, "type", lambda: o.setType("clad"))
            dims = [k for k in o.DIMENSION_NAMES if isinstance(o.p.__dict__.get("_p_" + k), float)]
            if dims:
                attempt("setDimension", i, dims[0], lambda: o.setDimension(dims[0], 0.5))
        if isinstance(o, blocks.Block):
            attempt("setHeight", i, "height", lambda: o.setHeight(o.getHeight() * 1.1))
            attempt("setType", i, "type", lambda: o.setType("plenum"))
        if isinstance(o, assemblies.Assembly):
            attempt("renumber", i, "assemNum", lambda: o.renumber(77))
            attempt("calculateZCoords", i, "z", lambda: (setattr(o[0].p, "height", 1.0), o.calculateZCoords()))


def check_readonly(rng):
    r = new_reactor()
    makeParametersReadOnly(r)
    readonly_routes(r, "readonly", rng)
    # the same through a database
    try:
        from armi.bookkeeping.db.database import Database

        r0 = new_reactor()
        with Database("c16.h5", "w") as db:
            db.writeInputsToDB(_BASE["o"].cs)
            db.writeToDB(r0)
        with Database("c16.h5", "r") as db:
            r2 = db.loadReadOnly(0, 0)
    except Exception as e:  # noqa: BLE001
        B.extra["loadReadOnly"] = "skipped: writing / loading the database raised %r" % e
        return
    B.extra["loadReadOnly"] = "checked"
    shared = {n.p.serialNum for n in walk(r2)} & {n.p.serialNum for n in walk(r0)}
    B.extra["serials_equal_to_the_written_reactor_after_db_load"] = len(shared)
    readonly_routes(r2, "loadReadOnly", rng)


# ------------------------------------------------------------------------------------------------ main
DET = {"grid-nested": det_grid_nested, "keep-reshape": det_keep_reshape, "material-cache": det_material_cache}


def finish_replay(before):
    failed = sum(COUNTS.values()) > before
    sys.stdout = _REAL_STDOUT
    print(json.dumps({"result": "fail" if failed else "pass", "violations": B.violations[:5]}, default=str))


if B.replay is not None:
    n0 = sum(COUNTS.values())
    inp = B.replay
    if "scenario" in inp:
        run_scenario(inp.get("world", "reactor"), inp["scenario"])
    elif inp.get("check") in DET:
        DET[inp["check"]]()
    elif inp.get("check") == "copy":
        check_copies(random.Random(B.seed))
    elif inp.get("check") in ("readonly", "loadReadOnly"):
        check_readonly(random.Random(B.seed))
    elif inp.get("check") == "serial":
        check_copies(random.Random(B.seed))
        serial_census()
    finish_replay(n0)
    os.chdir("/")
    sys.exit(0)

def guarded(name, fn, *args):
    """A crash of a whole check (armi raising where the contract has no claim of its own) is reported, never swallowed."""
    try:
        fn(*args)
    except Exception as e:  # noqa: BLE001
        import traceback

        tb = traceback.extract_tb(e.__traceback__)
        report("harness.check-crashed." + name, "the check raised %r" % e, {"check": name, "where": ["%s:%d %s" % (os.path.basename(f.filename), f.lineno, f.name) for f in tb[-4:]]})


for name, f in DET.items():
    guarded(name, f)
guarded("readonly", check_readonly, random.Random(B.rng.randrange(1 << 30)))
guarded("copy", check_copies, random.Random(B.rng.randrange(1 << 30)))
NSC = {"reactor": 9000 if THOROUGH else 520, "generic": 3000 if THOROUGH else 170}
for world in ("reactor", "generic"):
    for _ in range(NSC[world]):
        if time.thread_time() - C0 > BUDGET:
            B.extra["time_budget_hit"] = True
            break
        run_scenario(world, B.rng.randrange(1 << 30))
guarded("serial", serial_census)

B.extra["violation_counts"] = COUNTS
B.extra["edits_and_scopes"] = ACTIONS
B.extra["edits_refused_by_armi_inside_a_scope"] = BODY_RAISED
B.extra["skipped"] = SKIPS
os.chdir("/")
sys.stdout = _REAL_STDOUT
B.finish(exhaustive=False)
