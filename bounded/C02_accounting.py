"""C02 bounded tier: mass / volume / number-density accounting on REAL blocks, assemblies and cores.

Executable contract of property C02 wrapped around the real armi API (imported from the tree under test, nothing copied):
    ArmiObject.getMass / getMasses / getVolume / getArea / getNumberDensity / getNuclideNumberDensities / getNumberDensities /
    getNumberOfAtoms / density / getMassFracs, Component.getMass / getVolume, Block.getVolume / getArea / getSymmetryFactor,
    Assembly.getVolume, the setters setNumberDensity / updateNumberDensities / setNumberDensities / changeNDensByFactor /
    addMass / setMass / addMasses / setMasses / setMassFracs at component, block, assembly and core level, and
    utils.densityTools.{getMassFractions, getNDensFromMasses, calculateMassDensity, calculateNumberDensity, getMassInGrams}.

The oracle (independent of the code under test) is a naive walk over the LEAVES of the object (its components):
    V(o)      = sum over leaf components c of  c.getVolume() / s(c)            s(c) = symmetry factor of c's block (see below)
    atoms(o,n)= sum over leaves of  N_c[n] * c.getVolume() / s(c) * 1e24       N_c = the component's own number densities
    mass(o,n) = sum over leaves of  N_c[n] * W[n] / 0.6022.. * c.getVolume() / s(c)       W = armi's atomic weights
    N(o,n)    = atoms(o,n) / V(o) / 1e24     (= the volume-weighted mean of the children's densities)
and the clause-by-clause "sum of the children's API values" relations.  Relative tolerance 1e-10 (sums), 1e-12 (read-back).

Relation checked for the symmetry factor (the statement's "reduced by the symmetry factor where a block is cut"):
    Block.getVolume() * s = sum of the components' getVolume();   Block.getArea() * s = sum of the components' getArea();
    Component.getMass(n) * s = N_c[n] * W / 0.6022 * Component.getVolume()        (a component's volume is the WHOLE hexagon's,
    its mass is the modelled part's - the mechanism named in the property's anchors);   Block.getNumberOfAtoms * s = sum of components'.
    s is stated independently of Block.getSymmetryFactor from the assembly's centre coordinates: third-core periodic model:
    3 at the centre; 2 on the 0-degree / 120-degree rays when assemblies are modelled on the 120-degree ray (both edges present);
    1 otherwise (also full core, and blocks outside a core).

Setter clauses (same level read-back): after op(o) the value of the touched nuclide read AT o is the requested one (1e-12 relative)
and every other nuclide's o.getNumberDensity is unchanged (1e-12).  Conventions that are part of the documented meaning of the
call (not tolerance): setNumberDensities = "everything not listed -> 0";  setMasses = "everything not listed -> cleared
(<= armi's TRACE_NUMBER_DENSITY 1e-50)";  a composite refusing (ValueError, state unchanged) to create a nuclide none of its
children holds through setNumberDensity/addMass/setMass is accepted and counted (extra.refused), creation through
updateNumberDensities must read back.

Violation ids: "<clause>.<level>" (level in component/block/assembly/core), with circumstance suffixes (features of the input, so
that a finding about that circumstance cannot mask the clause elsewhere):
    .cut-block        the object is a component of a block whose symmetry factor is not 1
    .all-zero         every nuclide of the object has been set to zero by the edits before
    .after-child-resize / .after-child-added / .after-child-removed     (appended last) earlier in this sequence, at assembly or core
                      level, the geometry of ONE child was changed through the public API (Block.setHeight with / without conserveMass;
                      Assembly.add / insert of a block copy; Assembly.remove; Core.removeAssembly) - state held above block level must
                      not go stale: e.g. setNumberDensity.readback.assembly.after-child-resize, atoms.core.after-child-removed
    .ambiguous-name   the selected name is a nuclide present here (natural element, e.g. MO) AND the symbol of an element of which
                      other isotopes are present in the object (e.g. MO98)
  accounting   symmetry.factor  volume.* volume.children.* area.block volume.area-x-height.* volume.derived-fills.block  nuclides.*
               ndens.bulk.* ndens.list.* ndens.single.* ndens.children.*  mass.total.* mass.nuclide.* mass.children.* mass.element.*
               mass.list.* mass.getMasses.*  atoms.* atoms.children.*  density.* density.raises.*  massfracs.sum.* massfracs.value.*
               generated.construct
  setters      <op>.readback.* <op>.others.* <op>.raises.* <op>.refusal-changed-state.*  for op in setNumberDensity (also removal = set to 0)
               addNuclide updateNumberDensities setNumberDensities changeNDensByFactor addMass removeMass setMass addMasses setMasses
               setMassFracs;  wipe.others.*  changeNDensByFactor.detailed.*  setMassFracs.proportions.* setMassFracs.density.*
               setMasses.unlisted.*
  geometry     setHeight.readback.block setHeight.conserve-mass.block (up to the trace density armi adds) geometry.raises.*
  densityTools dt.massfracs-sum dt.massfracs-value dt.massdensity-formula dt.ndens-roundtrip dt.massdensity-roundtrip
               dt.massfracs-roundtrip dt.normalize dt.mass-formula dt.mass-ndens-inverse dt.ndens-mass-inverse dt.mass-total units.avogadro

Geometry sequences.  (i) in every seeded edit sequence at assembly / core level a geometry change of one child precedes an edit with
probability 1/4;  (ii) staged sequences ("geometry_mode": "scenario"): read getVolumeFractions / getNumberDensities and apply one edit at
the level, change one child's geometry, then setNumberDensity / updateNumberDensities / setMass / addMass / setMassFracs preferring
nuclides that only SOME children hold (U235 in fuel blocks, B10 in control assemblies ...), a second geometry change at a seeded
position; after every geometry change the accounting clauses are re-evaluated on the changed block, its assembly and the object, and
after every setter the same-level read-back (1e-12) and the frame.  Loaded state restored afterwards by script plumbing.

Replay: --replay '<the "input" of a violation>' re-runs that object's accounting clauses, or (when it carries "seed") that edit sequence.
"""
import copy
import json
import math
import os
import random
import re
import sys
import tempfile
import time
import traceback

sys.path.insert(0, os.path.dirname(os.path.abspath(__file__)))
from common import Bounded, armi_ready

armi_ready()
import numpy as np
from armi import runLog
from armi.nucDirectory import nuclideBases
from armi.reactor import blocks, components
from armi.reactor.components import component as componentModule
from armi.reactor.components import DerivedShape
from armi.utils import densityTools, units

B = Bounded(
    rule="objects = every component / block / assembly / core of the smallest test reactor, the default hex third-core test reactor "
    "(centre assembly cut 3x), the same reactor with edge assemblies added (symmetry-line assemblies cut 2x) and generated hex blocks "
    "{shape class} x {UZr, HT9, Sodium (+B4C, UO2, Void thorough)} x {multiplicities} with a duct and a DerivedShape coolant at seeded "
    "heights / temperatures; (1) accounting clauses against a naive walk over the leaves, all nuclides in bulk + a seeded sample of "
    "nuclide / element / list selections; (2) seeded edit sequences (every setter, add / remove nuclide) at component, block, assembly "
    "and core level, each starting from the loaded state, read-back + frame checked after every call and the accounting clauses "
    "re-evaluated at the end; at assembly / core level geometry changes of one child (block height, block added / removed, assembly removed) "
    "are interleaved and staged before setters on nuclides only some children hold; (3) seeded compositions through the densityTools conversions.  distinct = (source, object path, "
    "clause group / sequence seed); non-trivial = the object holds nuclides and has non-zero volume",
    bound="quick: smallest + default reactor: every block, assembly and core, the components of 1-2 seeded blocks per assembly; edge variant: "
    "the core and its symmetry-line assemblies (about 1850 components in all); 19 shape classes + a pin / negative-volume gap / clad triple x 3 materials x 3 multiplicities = 180 "
    "generated blocks; about 680 edit sequences of length <= 6 over 46 reactor targets + 3 per generated block, with about 50 child "
    "geometry changes (resize with / without mass conservation, add / insert / remove block, remove assembly) inside 66 assembly / core "
    "sequences of which 21 staged (7 assemblies incl. the cut ones, 3 cores); 300 compositions of <= 12 nuclides.  thorough: every "
    "component of all three, every nuclide through the single-nuclide API, 6 materials x 6 multiplicities = 684 generated blocks, about "
    "10500 sequences of length <= 10 over 400 reactor targets, about 170 staged sequences over 22 assemblies and 3 cores, 5000 compositions.  "
    "Only hex blocks; only the framework's materials (none has composition-dependent expansion); third-core periodic / full-core only",
)
ACC = 1e-10
SET = 1e-12
C = units.MOLES_PER_CC_TO_ATOMS_PER_BARN_CM
TRACE = units.TRACE_NUMBER_DENSITY
SQRT3 = math.sqrt(3.0)
T = B.thorough()
counts = {}
B.extra["violation_counts"] = counts
B.extra["refused"] = 0
B.extra["skipped"] = {}
B.extra["ops_applied"] = {}
B.extra["levels_edited"] = {}
B.extra["geometry_changes"] = {}
B.extra["t_staged_by"] = {}
B.extra["shapes_covered"] = []
B.extra["symmetry_factors_seen"] = []
B.extra["objects_accounted"] = {"component": 0, "block": 0, "assembly": 0, "core": 0}


def skip(why):
    B.extra["skipped"][why] = B.extra["skipped"].get(why, 0) + 1


CIRC = [""]  # circumstance of the running sequence: ".after-child-resize" / ".after-child-removed" / ".after-child-added"
PREFER = []  # nuclides held by only SOME children of the object under edit (preferred targets after a geometry change)


def V(vid, what, inp):
    """One report per id (the first = smallest input); totals in violation_counts."""
    if CIRC[0] and not vid.endswith(CIRC[0]):
        vid += CIRC[0]
    counts[vid] = counts.get(vid, 0) + 1
    if counts[vid] == 1 or B.replay is not None:
        B.violation(vid, what, inp)


def check(cond, vid, what, inp):
    if not cond:
        V(vid, what, inp)
    return cond


def close(a, b, tol):
    a, b = float(a), float(b)
    if a == b:
        return True
    if math.isnan(a) or math.isnan(b):
        return False
    return abs(a - b) <= tol * max(abs(a), abs(b))


def W(n):
    return nuclideBases.byName[n].weight


# ------------------------------------------------------------------------------------------------ structure helpers
def level_of(o):
    if isinstance(o, componentModule.Component):
        return "component"
    if isinstance(o, blocks.Block):
        return "block"
    if o.__class__.__name__.endswith("Assembly"):
        return "assembly"
    return "core"


def leaves(o):
    if isinstance(o, componentModule.Component):
        return [o]
    out = []
    for ch in o:
        out.extend(leaves(ch))
    return out


def block_of(c):
    p = c.parent
    while p is not None and not isinstance(p, blocks.Block):
        p = p.parent
    return p


EDGE_CACHE = {}


def expected_sf(b):
    """Symmetry factor of a block stated from coordinates (not from Block.getSymmetryFactor)."""
    if b is None:
        return 1.0
    a = b.parent
    core = a.parent if a is not None else None
    if core is None or getattr(core, "spatialGrid", None) is None or a.spatialLocator is None or a.spatialLocator.grid is not core.spatialGrid:
        return 1.0
    sym = str(core.symmetry)
    if "third" not in sym or "periodic" not in sym:
        return 1.0
    x, y, _z = a.spatialLocator.getGlobalCoordinates()
    pitch = core.spatialGrid.pitch
    tol = 1e-6 * pitch
    if abs(x) < tol and abs(y) < tol:
        return 3.0
    on0 = abs(y) < tol and x > 0
    on120 = abs(y + SQRT3 * x) < tol and y > 0
    if on0 or on120:
        key = (id(core), len(core))
        if key not in EDGE_CACHE:
            both = False
            for other in core:
                xo, yo, _ = other.spatialLocator.getGlobalCoordinates()
                if abs(yo + SQRT3 * xo) < tol and yo > tol:
                    both = True
                    break
            EDGE_CACHE[key] = both
        if EDGE_CACHE[key]:
            return 2.0
    return 1.0


def naive(o):
    """(volume, {nuc: atoms}, {nuc: grams}) of o from its leaf components only."""
    vol = 0.0
    atoms = {}
    mass = {}
    for c in leaves(o):
        s = expected_sf(block_of(c))
        v = c.getVolume() / s
        vol += v
        for n, d in c.p.numberDensities.items():
            atoms[n] = atoms.get(n, 0.0) + d * v * 1e24
            mass[n] = mass.get(n, 0.0) + d * W(n) / C * v
    return vol, atoms, mass


def path_of(o):
    """JSON-able address of o below its root: list of child indices, root first."""
    idx = []
    while o.parent is not None and level_of(o) != "core":
        par = o.parent
        k = [i for i, ch in enumerate(par) if ch is o]
        if not k:
            break
        idx.append(k[0])
        o = par
        if level_of(o) == "core":
            break
    return idx[::-1]


def resolve(root, path):
    o = root
    for k in path:
        o = list(o)[k]
    return o


GEN_CTX = [None]


def describe(src, o):
    d = {"source": src, "level": level_of(o), "path": path_of(o), "object": re.sub(r"id:\d+", "id:*", repr(o))[:80]}
    if src.startswith("gen"):
        d["gen"] = GEN_CTX[0]
    if level_of(o) == "component":
        d["shape"] = o.__class__.__name__
        d["material"] = o.material.name
    return d


def element_symbols(nucs):
    """element symbol -> nuclides of that element present (symbols that are themselves nuclide names here are left out:
    there the specifier means that one nuclide)"""
    out = {}
    for n in nucs:
        nb = nuclideBases.byName[n]
        el = getattr(nb, "element", None)
        if el is None:
            continue
        out.setdefault(el.symbol, []).append(n)
    return {s: v for s, v in out.items() if s not in nucs}


def ambiguous(names, nucs):
    """circumstance suffix: a selected name is at once a nuclide present here (natural-abundance element, e.g. MO) and the symbol
    of an element of which other nuclides are present too: armi resolves such a name level by level"""
    for n in names:
        nb = nuclideBases.byName.get(n)
        el = getattr(nb, "element", None)
        if el is not None and el.symbol == n and any(m != n and getattr(nuclideBases.byName[m], "element", None) is el for m in nucs):
            return ".ambiguous-name"
    return ""


# ------------------------------------------------------------------------------------------------ (1) accounting
def accounting(src, o, rng, nsample=4, light=False):
    lev = level_of(o)
    info = describe(src, o)
    B.extra["objects_accounted"][lev] += 1
    vol, atoms, mass = naive(o)
    nucs = sorted(atoms)
    B.case((src, "acc", tuple(info["path"]), lev), sample=info, nontrivial=bool(nucs) and vol != 0.0)
    cut = ""
    s = 1.0
    if lev == "component":
        s = expected_sf(block_of(o))
        cut = ".cut-block" if s != 1.0 else ""
    if lev == "block":
        s = expected_sf(o)
        got = o.getSymmetryFactor()
        if s not in B.extra["symmetry_factors_seen"]:
            B.extra["symmetry_factors_seen"].append(s)
        check(got == s, "symmetry.factor", "Block.getSymmetryFactor differs from the factor the block's position implies (3 centre, 2 on modelled symmetry lines, else 1)",
              dict(info, expected=s, got=got))

    # ---- volume / area
    ov = o.getVolume()
    if lev == "component":
        # a component's own volume is the whole shape's; the leaf walk divides by s
        check(close(ov, vol * s, ACC), "volume.component", "component volume is not stable / not its own getVolume", dict(info, got=ov, expected=vol * s))
        b = block_of(o)
        if b is not None and not o.is3D:
            try:
                ar = o.getArea()
                check(close(ov, ar * b.getHeight(), ACC), "volume.area-x-height.component", "2-D component: volume != area x block height", dict(info, volume=ov, area=ar, height=b.getHeight()))
            except NotImplementedError:
                skip("component area not implemented")
    else:
        check(close(ov, vol, ACC), "volume." + lev, "volume is not the sum of the children's volumes (over the symmetry factor for a cut block)", dict(info, got=ov, expected=vol, symmetry=s))
        kids = list(o)
        if lev == "block":
            ksum = sum(c.getVolume() for c in kids) / s
        else:
            ksum = sum(ch.getVolume() for ch in kids)
        check(close(ov, ksum, ACC), "volume.children." + lev, "volume is not the sum of the children's getVolume()", dict(info, got=ov, expected=ksum))
    if lev == "block":
        try:
            asum = sum(c.getArea() for c in o) / s
            oa = o.getArea()
            check(close(oa, asum, ACC), "area.block", "block area is not the sum of the components' areas over the symmetry factor", dict(info, got=oa, expected=asum, symmetry=s))
            if not any(c.is3D for c in o):
                check(close(ov, oa * o.getHeight(), ACC), "volume.area-x-height.block", "block of 2-D components: volume != area x height", dict(info, volume=ov, area=oa, height=o.getHeight()))
        except NotImplementedError:
            skip("block area not implemented (volumetric shape without area)")
        if any(isinstance(c, DerivedShape) for c in o):
            full = o.getMaxArea() * o.getHeight()
            check(close(ov * s, full, ACC), "volume.derived-fills.block", "with a derived (left-over) shape the components fill the whole cell", dict(info, components=ov * s, cell=full))

    # ---- nuclides, number densities
    got_nucs = sorted(set(o.getNuclides()))
    check(got_nucs == nucs, "nuclides." + lev, "getNuclides is not the union of the leaves' nuclides", dict(info, got=got_nucs[:8], expected=nucs[:8]))
    if not nucs or vol == 0.0:
        return
    mean = {n: atoms[n] / vol / 1e24 for n in nucs}
    bulk = o.getNumberDensities()
    bad = [[n, bulk.get(n), mean[n]] for n in nucs if n not in bulk or not close(bulk[n], mean[n], ACC)]
    bad += [[n, bulk[n], None] for n in bulk if n not in mean]
    check(not bad, "ndens.bulk." + lev, "getNumberDensities is not the volume-weighted mean of the leaves' densities", dict(info, bad=bad[:4]))
    order = list(nucs)
    rng.shuffle(order)
    lst = list(o.getNuclideNumberDensities(order))
    bad = [[n, float(g), mean[n]] for n, g in zip(order, lst) if not close(g, mean[n], ACC)]
    check(len(lst) == len(order) and not bad, "ndens.list." + lev, "getNuclideNumberDensities(list) is not the volume-weighted mean, in the order asked", dict(info, bad=bad[:4]))
    if lev != "component":
        kids = list(o)
        if lev == "block":
            kv = [c.getVolume() / s for c in kids]
        else:
            kv = [ch.getVolume() for ch in kids]
        knd = [ch.getNumberDensities() for ch in kids]
        tot = sum(kv)
        bad = []
        for n in nucs:
            m = sum(v * d.get(n, 0.0) for v, d in zip(kv, knd)) / tot
            if not close(bulk.get(n, 0.0), m, ACC):
                bad.append([n, bulk.get(n), m])
        check(not bad, "ndens.children." + lev, "number density is not the volume-weighted mean of the children's getNumberDensities", dict(info, bad=bad[:4]))
    sample = nucs if (T or len(nucs) <= nsample) else rng.sample(nucs, nsample)
    if lev == "core" and not T:
        sample = sample[:3]

    # ---- masses
    mt = o.getMass()
    check(close(mt, sum(mass.values()), ACC), "mass.total." + lev, "total mass is not density x volume (over the symmetry factor) summed over the leaves",
          dict(info, got=mt, expected=sum(mass.values()), symmetry=s))
    if lev != "component":
        ks = sum(ch.getMass() for ch in o)
        check(close(mt, ks, ACC), "mass.children." + lev, "total mass is not the sum of the children's masses", dict(info, got=mt, expected=ks))
    ms = o.getMasses()
    bad = [[n, ms.get(n), mass[n]] for n in nucs if not close(ms.get(n, 0.0), mass[n], ACC)]
    check(not bad, "mass.getMasses." + lev + cut, "getMasses()[n] is not the mass of n (density x volume over the leaves) / differs from getMass(n)", dict(info, bad=bad[:4], symmetry=s))
    for n in sample:
        g = o.getMass(n)
        check(close(g, mass[n], ACC), "mass.nuclide." + lev + ambiguous([n], nucs), "mass of a nuclide is not density x volume (armi atomic weight, component volume over the symmetry factor)", dict(info, nuclide=n, got=g, expected=mass[n], symmetry=s))
        if lev != "component":
            ks = sum(ch.getMass(n) for ch in o)
            check(close(g, ks, ACC), "mass.children." + lev, "mass of a nuclide is not the sum of the children's", dict(info, nuclide=n, got=g, expected=ks))
        at = o.getNumberOfAtoms(n)
        exp_at = atoms[n] * (s if lev == "component" else 1.0)
        check(close(at, exp_at, ACC), "atoms." + lev, "atoms (density x volume) do not agree with the leaves' density x volume", dict(info, nuclide=n, got=at, expected=exp_at))
        if lev != "component":
            ka = sum(ch.getNumberOfAtoms(n) for ch in o) / (s if lev == "block" else 1.0)
            check(close(at, ka, ACC), "atoms.children." + lev, "atoms do not agree with the sum over the children (over the symmetry factor for a cut block)", dict(info, nuclide=n, got=at, expected=ka))
        g1 = o.getNumberDensity(n)
        check(close(g1, mean[n], ACC), "ndens.single." + lev, "getNumberDensity(n) is not the volume-weighted mean", dict(info, nuclide=n, got=g1, expected=mean[n]))
    els = element_symbols(nucs)
    for sym in sorted(els)[: (len(els) if T else 2)]:
        if lev == "core" and not T and sym != sorted(els)[0]:
            continue
        e = sum(mass[n] for n in els[sym])
        g = o.getMass(sym)
        check(close(g, e, ACC), "mass.element." + lev, "mass of an element selection is not the sum over its nuclides present", dict(info, element=sym, nuclides=els[sym], got=g, expected=e))
    if len(nucs) >= 2:
        pick = rng.sample(nucs, min(len(nucs), rng.choice([2, 3])))
        e = sum(mass[n] for n in pick)
        g = o.getMass(list(pick))
        check(close(g, e, ACC), "mass.list." + lev + ambiguous(pick, nucs), "mass of a list of nuclides is not the sum of their masses", dict(info, nuclides=pick, got=g, expected=e))
        if els:
            sym = rng.choice(sorted(els))
            other = [n for n in nucs if n not in els[sym]]
            if other:
                o1 = rng.choice(other)
                e = sum(mass[n] for n in els[sym]) + mass[o1]
                g = o.getMass([sym, o1])
                check(close(g, e, ACC), "mass.list." + lev + ambiguous([o1], nucs), "mass of [element, nuclide] is not the sum", dict(info, selection=[sym, o1], got=g, expected=e))
    if light:  # big core after an edit: density() / getMassFracs() cost seconds there; every other clause was evaluated
        return
    # ---- density, mass fractions
    e = sum(mean[n] * W(n) for n in nucs) / C
    zero = ".all-zero" if e == 0.0 else ""  # circumstance: every nuclide of the object has been set to zero
    try:
        rho = o.density()
    except Exception as ex:
        V("density.raises." + lev + zero, "density() raised", dict(info, error=repr(ex)[:160], material=getattr(getattr(o, "material", None), "name", None)))
        rho = None
    if rho is not None:
        check(close(rho, e, ACC), "density." + lev + zero, "mass density is not sum N_i A_i / N_A", dict(info, got=rho, expected=e))
        if lev != "component" or s == 1.0:
            check(close(rho * ov, mt, ACC), "density." + lev + zero, "mass != density x volume", dict(info, density=rho, volume=ov, mass=mt))
        else:
            check(close(rho * ov, mt * s, ACC), "density." + lev + zero, "component mass x symmetry factor != density x volume", dict(info, density=rho, volume=ov, mass=mt, symmetry=s))
    mf = o.getMassFracs()
    if e > 0:
        tot = sum(mf.values())
        check(close(tot, 1.0, ACC), "massfracs.sum." + lev, "mass fractions do not sum to one", dict(info, total=tot))
        bad = [[n, mf.get(n), mean[n] * W(n) / C / e] for n in nucs if not close(mf.get(n, 0.0), mean[n] * W(n) / C / e, ACC)]
        check(not bad, "massfracs.value." + lev, "mass fraction is not the nuclide's share of the mass density", dict(info, bad=bad[:4]))


def account_tree(src, root, rng, blocksample=None):
    """Every level below root.  blocksample: None = all components of all blocks, else only of that many seeded blocks per assembly."""
    lev = level_of(root)
    if lev == "core":
        accounting(src, root, rng)
        for a in root:
            account_tree(src, a, rng, blocksample)
    elif lev == "assembly":
        accounting(src, root, rng)
        bl = list(root)
        chosen = set(range(len(bl))) if blocksample is None else set(rng.sample(range(len(bl)), min(len(bl), blocksample)))
        for i, b in enumerate(bl):
            accounting(src, b, rng)
            if i in chosen:
                for c in b:
                    accounting(src, c, rng, nsample=2)
    elif lev == "block":
        accounting(src, root, rng)
        for c in root:
            accounting(src, c, rng, nsample=3)
    else:
        accounting(src, root, rng)


# ------------------------------------------------------------------------------------------------ (2) setters
ABSENT = ["PU239", "AM241", "B10", "O16", "XE135", "TH232", "MO98"]


class State:
    """The composition state below o (what the setters may write), captured / restored by direct parameter access."""

    def __init__(self, o):
        self.items = [(c, dict(c.p.numberDensities), c.p.detailedNDens, c.p.pinNDens) for c in leaves(o)]

    def restore(self):
        for c, nd, det, pin in self.items:
            c.p.numberDensities = dict(nd)
            c.p.detailedNDens = det
            c.p.pinNDens = pin


OPS_ALL = ["setNumberDensity", "setNumberDensity", "removeNuclide", "addNuclide", "updateNumberDensities", "setNumberDensities", "changeNDensByFactor",
           "addMass", "removeMass", "setMass", "addMasses", "setMasses", "setMassFracs", "setMassFracs"]


def choose(rng, cands):
    pref = [n for n in cands if n in PREFER]
    if pref and rng.random() < 0.8:
        return rng.choice(pref)
    return rng.choice(cands)


def sample_pref(rng, cands, k):
    pick = rng.sample(cands, k)
    if PREFER:
        pref = [n for n in cands if n in PREFER and n not in pick]
        if pref:
            pick[0] = rng.choice(pref)
    return pick


def nd_of(o):
    return {k: float(v) for k, v in o.getNumberDensities().items()}


def others_unchanged(before, after, touched):
    bad = []
    for n in set(before) | set(after):
        if n in touched:
            continue
        if not close(before.get(n, 0.0), after.get(n, 0.0), SET):
            bad.append([n, before.get(n, 0.0), after.get(n, 0.0)])
    return bad


def apply_op(src, o, lev, cut, rng, info, kind):
    """Apply one seeded edit through the real API and check its postcondition at the same level.  Returns False when the
    object is left in a state later edits cannot build on."""
    before = nd_of(o)
    present = sorted(before)
    pos = [n for n in present if before[n] > 0.0]
    absent = [n for n in ABSENT if n not in before]
    if not present:
        skip("object without nuclides")
        return False
    ctx = dict(info, op=kind)
    B.extra["ops_applied"][kind] = B.extra["ops_applied"].get(kind, 0) + 1

    def val_for(n):
        u = rng.random()
        if u < 0.5 and before.get(n, 0.0) > 0:
            return before[n] * rng.choice([0.1, 0.5, 0.97, 1.0, 1.3, 2.0, 7.5])
        return 10 ** rng.uniform(-7, -1.5)

    def fail(clause, what, detail, suffix=""):
        V("%s.%s.%s%s" % (kind if kind not in ("removeNuclide",) else "setNumberDensity", clause, lev, suffix), what, dict(ctx, detail=detail))

    try:
        if kind in ("setNumberDensity", "removeNuclide"):
            n = choose(rng, present)
            v = 0.0 if kind == "removeNuclide" else val_for(n)
            ctx.update(nuclide=n, value=v)
            o.setNumberDensity(n, v)
            after = nd_of(o)
            if not close(after.get(n, 0.0), v, SET):
                fail("readback", "setNumberDensity(n, v): n does not read back v at the same level", [n, v, after.get(n)])
            bad = others_unchanged(before, after, {n})
            if bad:
                fail("others", "setNumberDensity changed another nuclide's density", bad[:4])
        elif kind == "addNuclide":
            if not absent:
                skip("no absent nuclide to add")
                return True
            n = rng.choice(absent)
            v = rng.choice([0.0, 10 ** rng.uniform(-7, -2)])
            ctx.update(nuclide=n, value=v)
            how = rng.choice(["setNumberDensity", "updateNumberDensities"]) if lev != "component" else rng.choice(["setNumberDensity", "updateNumberDensities", "addMass"])
            ctx.update(through=how)
            refused = False
            try:
                if how == "setNumberDensity":
                    o.setNumberDensity(n, v)
                elif how == "addMass":
                    v = 10 ** rng.uniform(-3, 2)  # grams
                    ctx.update(value=v)
                    o.addMass(n, v)
                else:
                    o.updateNumberDensities({n: v})
            except ValueError:
                refused = True
            after = nd_of(o)
            if refused:
                B.extra["refused"] += 1
                if lev == "component" or how == "updateNumberDensities":
                    fail("raises", "creating a nuclide through this call must work at this level", how)
                bad = others_unchanged(before, after, set())
                if bad:
                    fail("refusal-changed-state", "a refused edit changed the composition", bad[:4])
            else:
                if how == "addMass":
                    g = o.getMass(n)
                    if not close(g, v, SET):
                        fail("readback", "addMass of a nuclide that was absent: its mass does not read back", [n, v, g], cut + ambiguous([n], after))
                elif not close(after.get(n, 0.0), v, SET):
                    fail("readback", "a nuclide added with density v does not read back v at the same level", [n, v, after.get(n)])
                bad = others_unchanged(before, after, {n})
                if bad:
                    fail("others", "adding a nuclide changed another nuclide's density", bad[:4])
        elif kind == "updateNumberDensities":
            pick = sample_pref(rng, present, min(len(present), rng.randint(1, 3)))
            req = {n: val_for(n) for n in pick}
            if absent and rng.random() < 0.3:
                req[rng.choice(absent)] = 10 ** rng.uniform(-7, -2)
            if rng.random() < 0.2:
                req[rng.choice(pick)] = 0.0
            ctx.update(request=req)
            wipe = lev == "component" and rng.random() < 0.3
            if wipe:
                ctx.update(wipe=True)
                o.updateNumberDensities(dict(req), wipe=True)
            else:
                o.updateNumberDensities(dict(req))
            after = nd_of(o)
            bad = [[n, v, after.get(n)] for n, v in req.items() if not close(after.get(n, 0.0), v, SET)]
            if bad:
                fail("readback", "updateNumberDensities: a listed nuclide does not read back the requested density", bad[:4])
            if wipe:
                bad = [[n, after[n]] for n in after if n not in req and after[n] != 0.0]
                if bad:
                    V("wipe.others." + lev, "updateNumberDensities(wipe=True): an unlisted nuclide is not cleared", dict(ctx, detail=bad[:4]))
            else:
                bad = others_unchanged(before, after, set(req))
                if bad:
                    fail("others", "updateNumberDensities changed an unlisted nuclide", bad[:4])
        elif kind == "setNumberDensities":
            pick = rng.sample(present, min(len(present), rng.randint(1, max(1, len(present) - 1))))
            req = {n: val_for(n) for n in pick}
            if absent and rng.random() < 0.3:
                req[rng.choice(absent)] = 10 ** rng.uniform(-7, -2)
            ctx.update(request=req)
            o.setNumberDensities(dict(req))
            after = nd_of(o)
            bad = [[n, v, after.get(n)] for n, v in req.items() if not close(after.get(n, 0.0), v, SET)]
            if bad:
                fail("readback", "setNumberDensities: a listed nuclide does not read back the requested density", bad[:4])
            bad = [[n, after[n]] for n in after if n not in req and after[n] != 0.0]
            if bad:
                fail("others", "setNumberDensities: an unlisted nuclide is not reset to zero", bad[:4])
        elif kind == "changeNDensByFactor":
            f = rng.choice([0.5, 0.9, 1.0, 1.1, 2.0, rng.uniform(0.2, 3.0)])
            ctx.update(factor=f)
            own = {}
            for name in ("detailedNDens", "pinNDens"):
                if name in o.p.paramDefs.names:
                    o.p[name] = np.array([rng.uniform(1e-4, 1e-2) for _ in range(4)])
                    own[name] = np.array(o.p[name], copy=True)  # as stored (the parameter may keep single precision)
            try:
                o.changeNDensByFactor(f)
            except AttributeError as e:  # report, then still judge what the call did to the densities
                tb = traceback.extract_tb(e.__traceback__)[-1]
                V("changeNDensByFactor.raises." + lev, "the edit raised", dict(ctx, error=repr(e)[:200], at="%s:%s" % (os.path.basename(tb.filename), tb.lineno)))
            after = nd_of(o)
            bad = [[n, before[n] * f, after.get(n)] for n in before if not close(after.get(n, 0.0), before[n] * f, SET)]
            bad += [[n, 0.0, after[n]] for n in after if n not in before and after[n] != 0.0]
            if bad:
                fail("readback", "changeNDensByFactor(f): a nuclide's density is not f times what it was", bad[:4])
            for name, arr in own.items():
                now = o.p[name]
                tol = 1e-6 if arr.dtype == np.float32 else SET
                if now is None or not np.allclose(np.asarray(now, dtype=float), arr.astype(float) * f, rtol=tol, atol=0.0):
                    fail("detailed", "changeNDensByFactor(f) did not scale the object's own %s by f" % name, [name, arr.tolist(), None if now is None else np.asarray(now).tolist()])
                o.p[name] = None
        elif kind in ("addMass", "removeMass", "setMass"):
            n = choose(rng, pos if (pos and kind != "setMass") else present)
            m0 = o.getMass(n)
            if kind == "addMass":
                m = m0 * rng.choice([0.01, 0.5, 1.0, 3.0]) if m0 > 0 and rng.random() < 0.6 else 10 ** rng.uniform(-3, 3)
            elif kind == "removeMass":
                m = m0 * rng.choice([0.01, 0.25, 0.5, 1.0]) if m0 > 0 else 0.0
            else:
                m = rng.choice([0.0, m0 * rng.uniform(0.1, 4.0), 10 ** rng.uniform(-3, 3)])
            ctx.update(nuclide=n, grams=m, before=m0)
            if kind == "addMass":
                o.addMass(n, m)
                exp = m0 + m
            elif kind == "removeMass":
                o.removeMass(n, m)
                exp = m0 - m
            else:
                o.setMass(n, m)
                exp = m
            g = o.getMass(n)
            ok = abs(g - exp) <= SET * max(abs(m0), abs(m), abs(g)) if kind != "setMass" else close(g, exp, SET)
            if not ok:
                fail("readback", "%s: the nuclide's mass at the same level is not the requested one" % kind, [n, exp, g], cut + ambiguous([n], before))
            after = nd_of(o)
            bad = others_unchanged(before, after, {n})
            if bad:
                fail("others", "%s changed another nuclide's density" % kind, bad[:4])
        elif kind == "addMasses":
            pick = sample_pref(rng, present, min(len(present), rng.randint(1, 3)))
            req = {}
            m0 = {}
            for n in pick:
                m0[n] = o.getMass(n)
                req[n] = rng.choice([0.0, m0[n] * 0.5 if m0[n] > 0 else 1.0, 10 ** rng.uniform(-3, 2)])
            ctx.update(request=req, before=m0)
            o.addMasses(dict(req))
            bad = []
            for n in pick:
                g = o.getMass(n)
                if abs(g - (m0[n] + req[n])) > SET * max(abs(m0[n]), abs(req[n]), abs(g)):
                    bad.append([n, m0[n] + req[n], g])
            if bad:
                fail("readback", "addMasses: a listed nuclide's mass did not grow by the requested grams", bad[:4], cut + ambiguous([x[0] for x in bad], before))
            bad = others_unchanged(before, nd_of(o), set(pick))
            if bad:
                fail("others", "addMasses changed an unlisted nuclide", bad[:4])
        elif kind == "setMasses":
            pick = sample_pref(rng, present, min(len(present), rng.randint(1, 4)))
            req = {n: 10 ** rng.uniform(-3, 3) for n in pick}
            ctx.update(request=req)
            o.setMasses(dict(req))
            bad = []
            for n in pick:
                g = o.getMass(n)
                if not close(g, req[n], SET):
                    bad.append([n, req[n], g])
            if bad:
                fail("readback", "setMasses: a listed nuclide's mass does not read back", bad[:4], cut + ambiguous([x[0] for x in bad], before))
            after = nd_of(o)
            bad = [[n, after[n]] for n in after if n not in req and abs(after[n]) > TRACE * (1 + 1e-9)]
            if bad:
                V("setMasses.unlisted." + lev, "setMasses: an unlisted nuclide is not cleared (to at most the trace density)", dict(ctx, detail=bad[:4]))
        elif kind == "setMassFracs":
            if not pos:
                skip("setMassFracs on an object whose densities are all zero")
                return True
            rho0 = o.density()
            if not rho0 > 0 or len(pos) < 2:
                skip("setMassFracs on an object without mass / with a single nuclide")
                return True
            k = rng.randint(1, min(2, len(pos) - 1))
            pick = sample_pref(rng, present, k)
            rest = [n for n in pos if n not in pick]
            if not rest:
                skip("setMassFracs: nothing left to keep proportions / density")
                return True
            fr = [rng.uniform(0.01, 0.45) for _ in pick]
            if rng.random() < 0.15:
                fr[0] = 0.0
            req = dict(zip(pick, fr))
            ctx.update(request=req)
            o.setMassFracs(dict(req))
            mf = o.getMassFracs()
            bad = [[n, f, mf.get(n)] for n, f in req.items() if not close(mf.get(n, 0.0), f, 1e-11)]
            if bad:
                fail("readback", "setMassFracs: a requested mass fraction does not read back", bad[:4])
            after = nd_of(o)
            ratios = [[n, after.get(n, 0.0) / before[n]] for n in rest]
            r0 = ratios[0][1]
            bad = [x for x in ratios if not close(x[1], r0, 1e-11)]
            bad += [[n, after[n]] for n in after if n not in req and before.get(n, 0.0) == 0.0 and after[n] != 0.0]
            if bad:
                fail("proportions", "setMassFracs: the remaining nuclides did not keep their proportions", [ratios[0]] + bad[:4])
            rho1 = o.density()
            if not close(rho1, rho0, 1e-11):
                fail("density", "setMassFracs changed the total mass density", [rho0, rho1])
            tot = sum(mf.values())
            if not close(tot, 1.0, 1e-11):
                fail("readback", "mass fractions do not sum to one after setMassFracs", tot)
        else:
            raise KeyError(kind)
    except Exception as e:  # an edit the statement admits raised
        tb = traceback.extract_tb(e.__traceback__)[-1]
        V("%s.raises.%s" % (kind, lev), "the edit raised", dict(ctx, error=repr(e)[:200], at="%s:%s" % (os.path.basename(tb.filename), tb.lineno)))
        return False
    return True


GEO_KINDS = ["resize", "resize", "resize-conserve", "remove-block", "add-block", "insert-block"]


def partial_nuclides(o):
    """nuclides held by at least one but not all children of o"""
    kids = list(o)
    held = [set(ch.getNuclides()) for ch in kids]
    allnucs = set().union(*held) if held else set()
    return sorted(n for n in allnucs if 0 < sum(1 for h in held if n in h) < len(kids))


class GeoState:
    """What a geometry change below an assembly / core may touch (block heights, block lists, assembly list, densities); restore is
    plumbing of this script (not under test) and puts the loaded state back."""

    def __init__(self, o):
        self.o = o
        self.lev = level_of(o)
        self.assems = [o] if self.lev == "assembly" else list(o)
        self.kids = [(a, list(a)) for a in self.assems]
        self.heights = [(b, b.getHeight()) for a in self.assems for b in a]
        self.locs = [(a, a.spatialLocator) for a in self.assems] if self.lev == "core" else []
        self.dens = State(o)
        self.touched = False

    def restore(self):
        if self.touched:
            if self.lev == "core":
                core = self.o
                for a, loc in self.locs:
                    if a.parent is not core:
                        core.add(a, loc)
                order = {id(a): i for i, a in enumerate(self.assems)}
                if [id(a) for a in core] != [id(a) for a in self.assems]:
                    core._children.sort(key=lambda x: order.get(id(x), 10 ** 9))
            for a, kids in self.kids:
                if [id(b) for b in a] != [id(b) for b in kids]:
                    keep = {id(b) for b in kids}
                    for b in list(a):
                        if id(b) not in keep:
                            a.remove(b)
                    for i, b in enumerate(kids):
                        if b.parent is not a:
                            a.insert(i, b)
                    a.reestablishBlockOrder()
                    a.calculateZCoords()
            for b, h in self.heights:
                if b.getHeight() != h:
                    b.setHeight(h)
        self.dens.restore()
        if self.touched:
            for b, _h in self.heights:
                b.clearCache()
            EDGE_CACHE.clear()


def do_geometry(src, o, lev, rng, info, gst, kind=None):
    """Change the geometry of ONE child (assembly level: a block; core level: a block of one assembly, or one whole assembly) through
    the public API; sets the circumstance suffix; re-evaluates the accounting clauses on the changed child and on o."""
    gst.touched = True
    CIRC[0] = ""
    assems = [o] if lev == "assembly" else [a for a in o if len(a) > 0]
    a = rng.choice(assems)
    kinds = GEO_KINDS + (["remove-assembly"] if lev == "core" and len(assems) > 2 else [])
    kind = kind or rng.choice(kinds)
    if kind == "remove-assembly" and "remove-assembly" not in kinds:
        kind = "resize"
    if kind == "remove-block" and len(a) < 2:
        kind = "resize"
    bi = rng.randrange(len(a))
    b = a[bi]
    rec = {"change": kind, "assembly": path_of(a) if lev == "core" else [], "block": bi}
    changed = None
    if kind in ("resize", "resize-conserve"):
        h0 = b.getHeight()
        f = rng.choice([0.5, 0.8, 1.25, 2.0, rng.uniform(0.3, 3.0)])
        rec.update(height=[h0, h0 * f])
        if kind == "resize":
            b.setHeight(h0 * f)
        else:
            m0 = {n: b.getMass(n) for n in sorted(b.getNuclides())}
            b.setHeight(h0 * f, conserveMass=True, adjustList=sorted(b.getNuclides()))
            slack = 2.0 * TRACE / C * b.getVolume()  # adjustDensity adds the trace density "so components remember"
            bad = [[n, m, b.getMass(n)] for n, m in m0.items() if abs(m - b.getMass(n)) > ACC * max(abs(m), abs(b.getMass(n))) + slack * W(n)]
            check(not bad, "setHeight.conserve-mass.block", "setHeight(conserveMass=True) over all nuclides changed a nuclide's mass in the block", dict(info, geometry=rec, bad=bad[:3]))
        check(close(b.getHeight(), h0 * f, SET), "setHeight.readback.block", "block height does not read back", dict(info, geometry=rec, got=b.getHeight()))
        CIRC[0] = ".after-child-resize"
        changed = b
    elif kind == "remove-block":
        a.remove(b)
        CIRC[0] = ".after-child-removed"
    elif kind in ("add-block", "insert-block"):
        newb = copy.deepcopy(b)
        if kind == "add-block":
            a.add(newb)
        else:
            a.insert(rng.randrange(len(a) + 1), newb)
        CIRC[0] = ".after-child-added"
        changed = newb
    elif kind == "remove-assembly":
        o.removeAssembly(a, discharge=False)
        rec["block"] = None
        CIRC[0] = ".after-child-removed"
    else:
        raise KeyError(kind)
    info.setdefault("geometry", []).append(rec)
    B.extra["geometry_changes"][kind] = B.extra["geometry_changes"].get(kind, 0) + 1
    if changed is not None:
        accounting(src + "+resized", changed, rng, nsample=2)
    if lev == "core" and kind != "remove-assembly":
        accounting(src + "+resized", a, rng, nsample=2)
    accounting(src + "+resized", o, rng, nsample=2, light=lev == "core" and len(assems) > 20)
    PREFER[:] = partial_nuclides(o)


def edit_case(src, root, path, seed, length, ops=None, geometry=None, geo_first=None):
    """One seeded edit sequence on the object at `path` below root, from the loaded state; state restored afterwards.
    geometry: None = at assembly / core level a child's geometry is changed before an edit with probability 1/4;
    "scenario" = the staged sequence (a) edit at this level, (b) geometry change of one child, (c) every setter on a nuclide held by
    only some of the children."""
    o = resolve(root, path)
    lev = level_of(o)
    info = describe(src, o)
    info.update(seed=seed, length=length)
    if ops:
        info["forced_ops"] = list(ops)
    if geometry:
        info["geometry_mode"] = geometry
    if geo_first:
        info["geo_first"] = geo_first
    rng = random.Random("C02:%s:%s:%s:%s" % (src, path, seed, geometry or ""))
    cut = ".cut-block" if lev == "component" and expected_sf(block_of(o)) != 1.0 else ""
    high = lev in ("assembly", "core")
    st = GeoState(o) if high else State(o)
    nontrivial = bool(nd_of(o))
    B.case((src, "edit", tuple(path), seed, geometry or ""), sample=info if nontrivial else None, nontrivial=nontrivial)
    B.extra["levels_edited"][lev] = B.extra["levels_edited"].get(lev, 0) + 1
    big = lev == "core" and len(leaves(o)) >= 200
    try:
        done = []
        if geometry == "scenario" and high:
            PREFER[:] = partial_nuclides(o)
            o.getVolumeFractions()
            o.getNumberDensities()
            plan = [rng.choice(["setNumberDensity", "updateNumberDensities", "addMass"]), "GEOMETRY:" + (geo_first or "")]
            tail = ["setNumberDensity", "updateNumberDensities", "setMass", "addMass", "setMassFracs"]
            if big and not T:
                tail.remove("setMassFracs")  # seconds per call on the 73-assembly core (quick tier: covered on the smallest core and on assemblies)
            rng.shuffle(tail)
            plan += tail[:length] if length < len(tail) else tail
            if rng.random() < 0.5:
                plan.insert(rng.randrange(3, len(plan) + 1), "GEOMETRY")
        else:
            plan = []
            for i in range(length):
                if high and not ops and rng.random() < 0.25:
                    plan.append("GEOMETRY")
                kind = ops[i] if ops else rng.choice(OPS_ALL)
                if lev == "core" and kind == "changeNDensByFactor" and not ops:
                    kind = "setNumberDensity"  # the core-level scale has its own dedicated case (see below)
                plan.append(kind)
        for kind in plan:
            done.append(kind)
            info["ops"] = list(done)
            if kind.startswith("GEOMETRY"):
                try:
                    forced = kind.partition(":")[2] or None
                    if forced == "remove-assembly" and lev != "core":
                        forced = "remove-block"
                    do_geometry(src, o, lev, rng, info, st, kind=forced)
                except Exception as e:
                    tb = traceback.extract_tb(e.__traceback__)[-1]
                    V("geometry.raises." + lev, "a geometry change of a child through the public API raised", dict(info, error=repr(e)[:200], at="%s:%s" % (os.path.basename(tb.filename), tb.lineno)))
                    break
                continue
            if not apply_op(src, o, lev, cut, rng, info, kind):
                break
        # the accounting clauses hold in the edited state too (histories)
        if not big or CIRC[0]:
            accounting(src + "+edited", o, rng, nsample=2, light=big)
            if lev == "component" and block_of(o) is not None:
                accounting(src + "+edited", block_of(o), rng, nsample=2)
    finally:
        CIRC[0] = ""
        PREFER[:] = []
        st.restore()


# ------------------------------------------------------------------------------------------------ generated blocks
SHAPES = {
    "Circle": dict(od=0.8, id=0.2),
    "Hexagon": dict(op=1.0, ip=0.5),
    "Rectangle": dict(lengthOuter=1.2, lengthInner=0.8, widthOuter=0.9, widthInner=0.4),
    "SolidRectangle": dict(lengthOuter=1.2, widthOuter=0.9),
    "Square": dict(widthOuter=1.0, widthInner=0.3),
    "Triangle": dict(base=1.0, height=0.8),
    "HoledHexagon": dict(op=1.2, holeOD=0.2, nHoles=7),
    "HexHoledCircle": dict(od=1.2, holeOP=0.4),
    "HoledRectangle": dict(lengthOuter=1.2, widthOuter=1.0, holeOD=0.3),
    "HoledSquare": dict(widthOuter=1.0, holeOD=0.4),
    "Helix": dict(od=0.2, id=0.0, axialPitch=20.0, helixDiameter=1.0),
    "UnshapedComponent": dict(area=0.7),
    "Sphere": dict(od=0.9, id=0.1),
    "Cube": dict(lengthOuter=0.9, lengthInner=0.2, widthOuter=0.8, widthInner=0.1, heightOuter=0.7, heightInner=0.3),
    "UnshapedVolumetricComponent": dict(volume=0.5),
    "PositiveOrNegativeVolumeComponent": dict(volume=0.5),
    "RadialSegment": dict(inner_radius=0.2, outer_radius=0.6, height=0.8, inner_theta=0.0, outer_theta=1.0),
    "DifferentialRadialSegment": dict(inner_radius=0.2, radius_differential=0.4, inner_axial=0.0, height=0.8, inner_theta=0.0, azimuthal_differential=1.0),
    "Circle+Circle": dict(od=0.8, id=0.2),  # two shaped children sharing nuclides (pin + clad-like ring of the same material)
    # a pin, a cold clad whose inner diameter is the pin's COLD diameter, and between them a Void gap linked to both: the hot pin
    # overlaps the clad and the gap has a NEGATIVE area / volume that compensates it (zero when the pin does not expand: a fluid,
    # or Thot = input temperature) - the "all component shapes" of the statement include this child of signed volume
    "Circle+Gap": dict(od=0.8, id=0.0),
}
# ZeroMassComponent ("never has mass": getNumberDensity is 0 by definition whatever was set) is a bookkeeping helper, not a shape: outside the quantifier
B.extra["skipped"]["ZeroMassComponent (bookkeeping helper, by definition reads back 0)"] = 1


def make_block(desc):
    shape, mat, mult, thot, height = desc["shape"], desc["material"], desc["mult"], desc["Thot"], desc["height"]
    b = blocks.HexBlock("gen", height=height)
    cls = componentModule.ComponentType.TYPES[shape.split("+")[0].lower()]
    d = dict(SHAPES[shape])
    if "mult" in cls.__init__.__code__.co_varnames:
        d["mult"] = mult
    c = cls("thing", mat, 25.0, thot, **d)
    b.add(c)
    if shape.endswith("+Gap"):
        clad = components.Circle("clad", "HT9", 25.0, 25.0, od=0.9, id=0.8, mult=mult)
        gap = components.Circle("gap", "Void", 25.0, thot, od="clad.id", id="thing.od", mult=mult)
        gap.resolveLinkedDims({"thing": c, "clad": clad})
        b.add(gap)
        b.add(clad)
    elif "+" in shape:
        b.add(components.Circle("ring", mat, 25.0, min(thot, 450.0), od=1.0, id=0.85, mult=mult))
    b.add(components.Hexagon("duct", "HT9", 25.0, 400.0, op=31.0, ip=30.0, mult=1.0))
    b.add(components.DerivedShape("coolant", "Sodium", 400.0, 400.0))
    b.getVolume()
    return b


def generated_descs(rng):
    mats = ["UZr", "HT9", "Sodium"] + (["B4C", "UraniumOxide", "Void"] if T else [])
    mults = [1, 7, 169] + ([2, 19, 271] if T else [])
    out = []
    for shape in SHAPES:
        for mat in mats:
            for mult in mults:
                out.append({"shape": shape, "material": mat, "mult": mult, "Thot": rng.choice([25.0, 350.0, 600.0]), "height": rng.choice([1.0, 2.5, 25.0, 111.1])})
    return out


# ------------------------------------------------------------------------------------------------ (3) densityTools
def density_tools(rng, ncomp):
    names = sorted(n for n, nb in nuclideBases.byName.items() if nb.weight and nb.weight > 0)
    check(close(C, 0.602214076, 1e-6), "units.avogadro", "MOLES_PER_CC_TO_ATOMS_PER_BARN_CM is not Avogadro's number x 1e-24", C)
    for k in range(ncomp):
        size = rng.randint(1, 12)
        nucs = rng.sample(names, size)
        nd = {n: 10 ** rng.uniform(-12, -1) for n in nucs}
        if size > 2 and rng.random() < 0.2:
            nd[nucs[0]] = 0.0
        inp = {"numberDensities": nd}
        B.case(("dt", k), sample=inp if k < 1 else None)
        mf = densityTools.getMassFractions(dict(nd))
        wsum = sum(nd[n] * W(n) for n in nucs)
        tot = sum(mf.values())
        check(close(tot, 1.0, ACC), "dt.massfracs-sum", "mass fractions do not sum to one", dict(inp, total=tot))
        bad = [[n, mf[n], nd[n] * W(n) / wsum] for n in nucs if not close(mf[n], nd[n] * W(n) / wsum, ACC)]
        check(not bad and set(mf) == set(nd), "dt.massfracs-value", "mass fraction is not N_i A_i / sum N_j A_j", dict(inp, bad=bad[:3]))
        rho = densityTools.calculateMassDensity(dict(nd))
        check(close(rho, wsum / C, ACC), "dt.massdensity-formula", "mass density is not sum N_i A_i / N_A", dict(inp, got=rho, expected=wsum / C))
        nd2 = densityTools.getNDensFromMasses(rho, dict(mf))
        bad = [[n, nd[n], nd2.get(n)] for n in nucs if not close(nd[n], nd2.get(n, -1.0), ACC)]
        check(not bad and set(nd2) == set(nd), "dt.ndens-roundtrip", "getNDensFromMasses(calculateMassDensity(N), getMassFractions(N)) != N", dict(inp, bad=bad[:3]))
        # the other way round: start from (rho, normalised mass fractions)
        raw = {n: rng.uniform(0.01, 1.0) for n in nucs}
        s = sum(raw.values())
        mf0 = {n: v / s for n, v in raw.items()}
        rho0 = 10 ** rng.uniform(-3, 1.3)
        nd3 = densityTools.getNDensFromMasses(rho0, dict(mf0))
        rho1 = densityTools.calculateMassDensity(dict(nd3))
        check(close(rho1, rho0, ACC), "dt.massdensity-roundtrip", "calculateMassDensity(getNDensFromMasses(rho, mf)) != rho", {"rho": rho0, "massFracs": mf0, "got": rho1})
        mf1 = densityTools.getMassFractions(dict(nd3))
        bad = [[n, mf0[n], mf1.get(n)] for n in nucs if not close(mf0[n], mf1.get(n, -1.0), ACC)]
        check(not bad, "dt.massfracs-roundtrip", "getMassFractions(getNDensFromMasses(rho, mf)) != mf", {"rho": rho0, "massFracs": mf0, "bad": bad[:3]})
        nd4 = densityTools.getNDensFromMasses(rho0, dict(raw), normalize=True)
        bad = [[n, nd3[n], nd4.get(n)] for n in nucs if not close(nd3[n], nd4.get(n, -1.0), ACC)]
        check(not bad, "dt.normalize", "normalize=True does not give the densities of the normalised fractions", {"rho": rho0, "massFracs": raw, "bad": bad[:3]})
        vol = 10 ** rng.uniform(-2, 5)
        mtot = 0.0
        for n in nucs:
            m = densityTools.getMassInGrams(n, vol, nd[n])
            mtot += m
            check(close(m, nd[n] * vol * W(n) / C, ACC), "dt.mass-formula", "getMassInGrams is not N V A / N_A", {"nuclide": n, "volume": vol, "N": nd[n], "got": m})
            back = densityTools.calculateNumberDensity(n, m, vol)
            check(close(back, nd[n], ACC), "dt.mass-ndens-inverse", "calculateNumberDensity(getMassInGrams(N)) != N", {"nuclide": n, "volume": vol, "N": nd[n], "got": back})
            g = 10 ** rng.uniform(-6, 6)
            m2 = densityTools.getMassInGrams(n, vol, densityTools.calculateNumberDensity(n, g, vol))
            check(close(m2, g, ACC), "dt.ndens-mass-inverse", "getMassInGrams(calculateNumberDensity(m)) != m", {"nuclide": n, "volume": vol, "grams": g, "got": m2})
        check(close(mtot, rho * vol, ACC), "dt.mass-total", "sum of nuclide masses != mass density x volume", dict(inp, volume=vol, got=mtot, expected=rho * vol))


# ------------------------------------------------------------------------------------------------ driver
SOURCES = {}


def load_sources(want):
    from armi.reactor.tests.test_reactors import loadTestReactor

    if "smallest" in want and "smallest" not in SOURCES:
        o, r = loadTestReactor(inputFileName="smallestTestReactor/armiRunSmallest.yaml")
        SOURCES["smallest"] = r.core
        SOURCES["_keep_s"] = (o, r)
    if ("default" in want or "edge" in want) and "default" not in SOURCES:
        o, r = loadTestReactor()
        SOURCES["default"] = r.core
        SOURCES["_keep_d"] = (o, r)
    if "edge" in want and "edge" not in SOURCES:
        from armi.reactor.converters import geometryConverters as gc

        r2 = copy.deepcopy(SOURCES["_keep_d"][1])
        gc.EdgeAssemblyChanger().addEdgeAssemblies(r2.core)
        for b in r2.core.iterBlocks():
            b.clearCache()
        SOURCES["edge"] = r2.core
        SOURCES["_keep_e"] = r2
    runLog.setVerbosity("error")


def root_of(src, gen=None):
    if src == "gen":
        return make_block(gen)
    load_sources([src])
    return SOURCES[src]


def main():
    runLog.setVerbosity("error")
    here = os.getcwd()
    rng = B.rng
    with tempfile.TemporaryDirectory() as tmp:
        os.chdir(tmp)
        try:
            if B.replay is not None:
                d = B.replay
                if d.get("source", "").split("+")[0] in ("smallest", "default", "edge", "gen") and "seed" in d:
                    src = d["source"].split("+")[0]
                    root = root_of(src, d.get("gen"))
                    GEN_CTX[0] = d.get("gen")
                    edit_case(src, root, d["path"], d["seed"], d["length"], ops=d.get("forced_ops"), geometry=d.get("geometry_mode"), geo_first=d.get("geo_first"))
                elif "source" in d:
                    src = d["source"].split("+")[0]
                    root = root_of(src, d.get("gen"))
                    GEN_CTX[0] = d.get("gen")
                    accounting(src, resolve(root, d["path"]), random.Random(0), nsample=10 ** 6)
                else:
                    density_tools(random.Random(B.seed), 50)
                print(json.dumps({"result": "fail" if B.violations else "pass", "violations": [v["id"] for v in B.violations], "input": d}, default=str))
                return
            budget = 1100.0 if T else 80.0
            load_sources(["smallest", "default", "edge"])
            # ---- (1) accounting on the loaded states
            account_tree("smallest", SOURCES["smallest"], rng)
            account_tree("default", SOURCES["default"], rng, blocksample=None if T else 2)
            if T:
                account_tree("edge", SOURCES["edge"], rng, blocksample=None)
            else:  # quick: the core and the assemblies cut by symmetry lines (the others repeat "default")
                accounting("edge", SOURCES["edge"], rng)
                for a in SOURCES["edge"]:
                    if expected_sf(a[0]) != 1.0:
                        account_tree("edge", a, rng, blocksample=1)
            B.extra["t_accounting_reactors"] = round(time.time() - B.t0, 1)
            # ---- (3) densityTools
            density_tools(rng, 5000 if T else 300)
            # ---- generated blocks: accounting + edits
            maxlen = 10 if T else 6
            gens = generated_descs(rng)
            for gi, gd in enumerate(gens):
                if B.spent() > budget * 0.45:
                    skip("generated blocks not reached within the time budget")
                    continue
                try:
                    b = make_block(gd)
                except Exception as e:
                    V("generated.construct", "a block of this shape / material / multiplicity cannot be built or measured", dict(gd, error=repr(e)[:200]))
                    continue
                src = "gen"
                if gd["shape"] not in B.extra["shapes_covered"]:
                    B.extra["shapes_covered"].append(gd["shape"])
                # describe() for generated blocks carries the generator input so that a report can be replayed
                accounting_gen(b, gd, rng, maxlen)
            B.extra["t_generated"] = round(time.time() - B.t0, 1)
            # ---- (2) edits on the reactors
            edits_on_reactors(rng, maxlen, budget)
        finally:
            os.chdir(here)
    B.finish(exhaustive=False)


def accounting_gen(b, gd, rng, maxlen):
    GEN_CTX[0] = gd
    account_tree("gen", b, rng)
    comps = list(b)
    targets = [[], [0], [len(comps) - 1]] + ([[1]] if T else [])  # the block, the shaped component, the derived coolant
    for path in targets:
        for rep in range(3 if T else 1):
            edit_case("gen", b, path, rng.randrange(10 ** 6), rng.randint(1, maxlen))


def edits_on_reactors(rng, maxlen, budget):
    plan = []  # (src, path, nseq)
    # smallest reactor: every object, several sequences each
    core = SOURCES["smallest"]
    n = 25 if T else 5
    plan.append(("smallest", [], n))
    for ai, a in enumerate(core):
        plan.append(("smallest", [ai], n))
        for bi, b in enumerate(a):
            plan.append(("smallest", [ai, bi], 2 * n))
            for ci, _c in enumerate(b):
                plan.append(("smallest", [ai, bi, ci], n))
    # default reactor: the centre assembly (cut 3x) and seeded others; edge variant: a cut-2x assembly
    for src in ("default", "edge"):
        core = SOURCES[src]
        assems = list(core)
        centre = [i for i, a in enumerate(assems) if expected_sf(a[0]) == 3.0]
        cut2 = [i for i, a in enumerate(assems) if expected_sf(a[0]) == 2.0]
        whole = [i for i, a in enumerate(assems) if expected_sf(a[0]) == 1.0]
        if src == "default":
            chosen = centre + rng.sample(whole, 6 if T else 3)
            plan.append((src, [], 6 if T else 2))
        else:
            chosen = rng.sample(cut2, min(len(cut2), 4 if T else 1))
        for ai in chosen:
            a = assems[ai]
            plan.append((src, [ai], 8 if T else 2))
            bl = list(range(len(a)))
            for bi in (bl if T else rng.sample(bl, min(2, len(bl)))):
                plan.append((src, [ai, bi], 6 if T else 2))
                comps = list(range(len(a[bi])))
                for ci in (comps if T else rng.sample(comps, min(2, len(comps)))):
                    plan.append((src, [ai, bi, ci], 4 if T else 2))
    B.extra["edit_targets"] = len(plan)
    for src, path, nseq in plan:
        for _ in range(nseq):
            if B.spent() > budget:
                skip("edit sequences not run within the time budget")
                continue
            edit_case(src, SOURCES[src], path, rng.randrange(10 ** 6), rng.randint(1, maxlen))
    # staged sequences: edit above block level, change ONE child's geometry, then every setter on a nuclide only some children hold
    t1 = time.time()
    staged = []
    for src in ("smallest", "default", "edge"):
        core = SOURCES[src]
        assems = list(core)
        withpartial = [i for i, a in enumerate(assems) if len(a) > 1 and partial_nuclides(a)]
        centre = [i for i in withpartial if expected_sf(assems[i][0]) == 3.0]
        cut2 = [i for i in withpartial if expected_sf(assems[i][0]) == 2.0]
        rest = [i for i in withpartial if i not in centre and i not in cut2]
        if src == "smallest":
            chosen, nrep, ncore = list(range(len(assems))), (12 if T else 3), (12 if T else 3)
        elif src == "default":
            chosen, nrep, ncore = centre + rng.sample(rest, min(len(rest), 16 if T else 4)), (6 if T else 2), (6 if T else 2)
        else:
            chosen, nrep, ncore = rng.sample(cut2, min(len(cut2), 4 if T else 1)), (6 if T else 2), (2 if T else 0)
        for ai in chosen:
            staged.append((src, [ai], nrep))
        staged.append((src, [], ncore))
    B.extra["staged_targets"] = len(staged)
    kinds = sorted(set(GEO_KINDS))
    nth = 0
    for src, path, nseq in staged:
        for rep_i in range(nseq):
            nth += 1
            first = "remove-assembly" if (not path and src != "smallest" and rep_i == 0) else kinds[nth % len(kinds)]
            if B.spent() > budget + 8.0:
                skip("staged geometry sequences not run within the time budget")
                continue
            t2 = time.time()
            edit_case(src, SOURCES[src], path, rng.randrange(10 ** 6), rng.randint(3, maxlen), geometry="scenario", geo_first=first)
            key = "%s-%s" % (src, "core" if not path else "assembly")
            B.extra["t_staged_by"][key] = round(B.extra["t_staged_by"].get(key, 0.0) + time.time() - t2, 1)
    B.extra["t_staged"] = round(time.time() - t1, 1)
    # dedicated single-operation cases at core level (every setter once, incl. the scale)
    for src in ("smallest", "default"):
        for kind in sorted(set(OPS_ALL)):
            edit_case(src, SOURCES[src], [], rng.randrange(10 ** 6), 1, ops=[kind])


main()
