"""Shared plumbing of the bounded / enumerated tier (runs under the repo's python with armi importable)."""
import json
import os
import sys
import time
import random


class Bounded:
    def __init__(self, rule, bound, label="bounded"):
        self.rule = rule
        self.bound = bound
        self.label = label  # "bounded" or "exhaustive" (finite domain named by the property)
        self.evaluations = 0
        self.distinct = set()
        self.samples = []
        self.violations = []
        self.t0 = time.time()
        self.c0 = time.thread_time()  # time budgets are in CPU seconds of this thread: the cases explored do not depend on machine load
        a = sys.argv
        self.tier = a[a.index("--tier") + 1] if "--tier" in a else "quick"
        self.seed = int(a[a.index("--seed") + 1]) if "--seed" in a else 0
        self.replay = json.loads(a[a.index("--replay") + 1]) if "--replay" in a else None
        self.rng = random.Random(self.seed)
        self.extra = {}

    def thorough(self):
        return self.tier == "thorough"

    def case(self, key, sample=None, nontrivial=True):
        self.evaluations += 1
        if nontrivial:
            self.distinct.add(key if isinstance(key, (str, int, tuple)) else repr(key))
        if sample is not None and len(self.samples) < 5:
            self.samples.append(sample)

    def violation(self, vid, what, inp):
        if len(self.violations) < 20:
            self.violations.append({"id": vid, "what": what, "input": inp})

    def check(self, cond, vid, what, inp):
        if not cond:
            self.violation(vid, what, inp)
        return cond

    def spent(self):
        """CPU seconds this thread has used since the script started (what the time budgets are compared with)"""
        return time.thread_time() - self.c0

    def finish(self, exhaustive=False):
        out = {
            "evaluations": self.evaluations,
            "distinct_nontrivial": len(self.distinct),
            "rule": self.rule,
            "bound": self.bound,
            "label": self.label,
            "bounded": self.label == "bounded",
            "exhaustive": exhaustive,
            "samples": self.samples,
            "violations": self.violations,
            "wall_s": round(time.time() - self.t0, 2),
        }
        out.update(self.extra)
        print(json.dumps(out, default=str))


def armi_ready():
    import armi

    if not armi.isConfigured():
        armi.configure(permissive=True)
