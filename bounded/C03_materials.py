"""C03 bounded tier: thermal expansion on REAL library materials x REAL 2-D shape classes x temperature paths.

Complements contracts/C03_expansion.py (deductive: arbitrary expansion correlation, every shape class) with executable
contracts on components built by the real constructors from every material class of ``armi.materials``.

For every SOLID material class M (not Fluid, not Custom, not an abstract base) x every 2-D shape class S:
  build ``S("c", "M", Tinput, Thot, **dims)`` (seeded positive dims; one start with Thot = Tinput, one already hot), then walk a
  seeded temperature path inside M's valid range (the range its ``linearExpansionPercent`` itself checks, observed through the
  material's ``checkTempRange``; 20..600 C if it states none).  After EACH ``setTemperature``:
    * factor f = getThermalExpansionFactor() equals (100 + P(T)) / (100 + P(Tinput)),  P = material.linearExpansionPercent;
    * every dimension in THERMAL_EXPANSION_DIMS = cold x f; every other dimension and every cold read-out unchanged;
    * area = cold area x f^2;
    * for EVERY nuclide: number density x area = its value before the path (mass per unit height), i.e. N = N0 x (f0/f)^2;
  after the path: the state (densities, dimensions, area) equals that of a twin component sent directly to the final
  temperature; ``setDimension(k, hot, cold=False)`` reads back ``hot`` and leaves the other dimensions alone.
Material level (every solid, a grid over its range): getThermalExpansionDensityReduction(T1, T2) = ((100+P(T1))/(100+P(T2)))^2 and
  linearExpansionFactor(Tc, T0) = (P(Tc)-P(T0))/(100+P(T0)); classes overriding either method are reported (``overrides``).
Fluids and Custom x every shape: factor 1, all dimensions and the area unchanged along a path in the fluid's density range.
Links: a Void gap and a solid liner whose dimensions are given as "fuel.od" / "clad.id" links (resolved by the real constructor):
  after heating fuel and clad to different temperatures the linked dimensions equal the other component's CURRENT dimensions.

Solids whose expansion correlation is identically zero (no expansion data) cannot be asked for a hot dimension: armi raises
RuntimeError (refuses loudly) - verified and counted in ``solids_without_expansion_data``, outside the statement.
Solids whose components come out massless (pseudoDensity 0: a C19 finding) get their own nuclides set to nonzero densities
through ``setNumberDensities`` so that the conservation clause is not vacuous (``massless_solids``).
Volumetric shapes (is3D, empty expansion set) are outside the statement (``shapes_skipped_3d``).

Bound: quick = full material x shape product, 8 paths of 3 steps; thorough = full product, 160 paths of 5 steps (fluids: a quarter of
that; links: quick 2 seeded clads per fuel, thorough every fuel x clad pair).
"""
import inspect
import io
import json
import math
import os
import sys

sys.path.insert(0, os.path.dirname(os.path.abspath(__file__)))
from common import Bounded, armi_ready

armi_ready()
from armi import materials, runLog
from armi.materials import material as materialModule
from armi.reactor.components import basicShapes, complexShapes, volumetricShapes
from armi.reactor.components.component import Component

runLog.setVerbosity("error")

B = Bounded(
    rule="every solid material class of armi.materials x every 2-D shape class (real constructors, seeded positive dimensions) x seeded "
    "temperature paths inside the material's valid expansion range; fluids/Custom x every shape; linked gap/liner between every solid "
    "fuel and a seeded solid clad; distinct = (material, shape, start, path)",
    bound="quick: full material x shape product, 8 paths x 3 steps; thorough: full product, 160 paths x 5 steps; material-level grid 50 / 400 temperatures",
)
NPATHS, NSTEPS, NGRID = (160, 5, 400) if B.thorough() else (8, 3, 50)
REL = 1e-9
ALL_IDS = set()
COUNTS = {}
ABSTRACT = {"Material", "Fluid", "SimpleSolid", "FuelMaterial", "_Mixture"}
SHAPE_NAMES = ["Circle", "Hexagon", "Rectangle", "SolidRectangle", "Square", "Triangle", "HoledHexagon", "HexHoledCircle", "HoledRectangle", "HoledSquare", "Helix"]
SHAPES = {n: getattr(basicShapes, n, None) or getattr(complexShapes, n) for n in SHAPE_NAMES}
C_TO_K = 273.15


def bad(vid, what, **inp):
    """One reported violation per id (the first input that fails); every id is counted."""
    COUNTS[vid] = COUNTS.get(vid, 0) + 1
    if vid not in ALL_IDS:
        ALL_IDS.add(vid)
        B.violation(vid, what, dict(inp, id=vid))
    return False


def ok(cond, vid, what, **inp):
    return True if cond else bad(vid, what, **inp)


def close(a, b, rel=REL):
    if a is None or b is None:
        return a is b
    try:
        return abs(a - b) <= rel * max(abs(a), abs(b)) + 1e-300
    except TypeError:
        return a == b


# ----------------------------------------------------------------------------------------------------------------------
def gen_dims(shape, u):
    """Seeded positive cold dimensions (constructor keywords) of a well-formed shape; u(a, b) draws uniformly."""
    mult = float(B.rng.randint(1, 30))
    if shape == "Circle":
        od = u(0.5, 3.0)
        return dict(od=od, id=od * u(0.0, 0.9), mult=mult)
    if shape == "Hexagon":
        op = u(0.5, 20.0)
        return dict(op=op, ip=op * u(0.0, 0.9), mult=mult)
    if shape == "Rectangle":
        lo, wo = u(0.5, 20.0), u(0.5, 20.0)
        return dict(lengthOuter=lo, widthOuter=wo, lengthInner=lo * u(0.0, 0.9), widthInner=wo * u(0.0, 0.9), mult=mult)
    if shape == "SolidRectangle":
        return dict(lengthOuter=u(0.5, 20.0), widthOuter=u(0.5, 20.0), mult=mult)
    if shape == "Square":
        wo = u(0.5, 20.0)
        return dict(widthOuter=wo, widthInner=wo * u(0.0, 0.9), mult=mult)
    if shape == "Triangle":
        return dict(base=u(0.5, 20.0), height=u(0.5, 20.0), mult=mult)
    if shape == "HoledHexagon":
        return dict(op=u(5.0, 20.0), holeOD=u(0.1, 0.5), nHoles=float(B.rng.randint(1, 7)), mult=mult)
    if shape == "HexHoledCircle":
        return dict(od=u(5.0, 20.0), holeOP=u(0.1, 2.0), mult=mult)
    if shape == "HoledRectangle":
        return dict(lengthOuter=u(5.0, 20.0), widthOuter=u(5.0, 20.0), holeOD=u(0.1, 2.0), mult=mult)
    if shape == "HoledSquare":
        return dict(widthOuter=u(5.0, 20.0), holeOD=u(0.1, 2.0), mult=mult)
    if shape == "Helix":
        od = u(0.2, 1.0)
        return dict(od=od, id=od * u(0.0, 0.9), axialPitch=u(5.0, 40.0), helixDiameter=u(1.0, 5.0), mult=mult)
    raise KeyError(shape)


def dim_keys(c):
    return sorted(k for k in set(c.DIMENSION_NAMES) | set(c.THERMAL_EXPANSION_DIMS) if k != "modArea" and k in c.p and c.p[k] is not None)


def state(c):
    return {"N": dict(c.getNumberDensities()), "dims": {k: c.getDimension(k) for k in dim_keys(c)}, "area": c.getArea()}


# ----------------------------------------------------------------------------------------------------------------------
class Recorder:
    def __init__(self, m):
        self.calls = []
        m.checkTempRange = self

    def __call__(self, minT, maxT, val, label=""):
        self.calls.append((float(minT), float(maxT), float(val)))


def valid_range_C(cls, prop, default=(20.0, 600.0)):
    """Range (in C) that the property's own range checks state (intersection), else the default window."""
    m = cls()
    rec = Recorder(m)
    probeTc = 326.85
    try:
        getattr(m, prop)(Tc=probeTc)
    except Exception:  # noqa
        pass
    los, his = [], []
    for lo, hi, val in rec.calls:
        if abs(val - probeTc) < 1e-6:
            off = 0.0
        elif abs(val - (probeTc + C_TO_K)) < 1e-6:
            off = -C_TO_K
        else:
            continue
        los.append(lo + off)
        his.append(hi + off)
    if not los:
        key = {"linearExpansionPercent": "linear expansion percent", "pseudoDensity": "density"}[prop]
        if key in cls.propertyValidTemperature:
            (lo, hi), unit = cls.propertyValidTemperature[key]
            off = 0.0 if str(unit).upper().startswith("C") else -C_TO_K
            los, his = [lo + off], [hi + off]
    if not los:
        return default, False
    lo, hi = max(los), min(his)
    eps = 1e-6 * max(1.0, abs(hi - lo))
    return (lo + eps, hi - eps), True


def all_material_classes():
    seen = {}
    for cls in materials.iterAllMaterialClassesInNamespace(materials):
        seen[cls.__name__] = cls
    return [seen[k] for k in sorted(seen)]


def classify():
    solids, fluids, skipped = [], [], []
    for cls in all_material_classes():
        n = cls.__name__
        if n in ABSTRACT or cls.__module__ == materialModule.__name__:
            skipped.append(n)
        elif issubclass(cls, materialModule.Fluid) or n == "Custom":
            fluids.append(cls)
        else:
            solids.append(cls)
    return solids, fluids, skipped


def P(mat, Tc):
    return float(mat.linearExpansionPercent(Tc=Tc))


# ----------------------------------------------------------------------------------------------------------------------
def material_level(cls, rng, overrides):
    """Density reduction / expansion factor against their definition in terms of P(T), on a grid; report overriders."""
    name = cls.__name__
    for meth in ("linearExpansionFactor", "getThermalExpansionDensityReduction"):
        owner = next(k for k in cls.__mro__ if meth in vars(k))
        if owner is not materialModule.Material:
            overrides.setdefault(meth, []).append("%s (defined in %s)" % (name, owner.__name__))
    m = cls()
    lo, hi = rng
    temps = [lo + (hi - lo) * i / (NGRID - 1) for i in range(NGRID)]
    for i, T1 in enumerate(temps):
        T2 = temps[(i * 7 + 3) % NGRID]
        B.case(("matlevel", name, i), nontrivial=False)
        try:
            p1, p2 = P(m, T1), P(m, T2)
            red = m.getThermalExpansionDensityReduction(T1, T2)
            fac = m.linearExpansionFactor(Tc=T2, T0=T1)
        except Exception as e:  # noqa
            bad("expansion.material-raises.%s" % name, "expansion method raises inside the valid range: %r" % (e,), material=name, T1=T1, T2=T2)
            return False
        if not (math.isfinite(p1) and p1 > -100.0):
            bad("expansion.percent-invalid.%s" % name, "linearExpansionPercent not finite or <= -100 inside the valid range", material=name, Tc=T1, value=p1)
            return False
        ok(close(red, ((100.0 + p1) / (100.0 + p2)) ** 2), "expansion.reduction-formula.%s" % name, "getThermalExpansionDensityReduction(T1,T2) != ((100+P(T1))/(100+P(T2)))^2",
           material=name, T1=T1, T2=T2, got=red, expected=((100.0 + p1) / (100.0 + p2)) ** 2)
        ok(close(1.0 + fac, (100.0 + p2) / (100.0 + p1)), "expansion.factor-formula.%s" % name, "1 + linearExpansionFactor(Tc,T0) != (100+P(Tc))/(100+P(T0))",
           material=name, T0=T1, Tc=T2, got=fac)
    return True


def build(shapeName, matName, Tin, Thot, dims, massless):
    c = SHAPES[shapeName]("c", matName, Tin, Thot, **dims)
    nd = c.getNumberDensities()
    if nd and not any(nd.values()):
        massless.add(matName)
        c.setNumberDensities({k: 0.01 * (i + 1) for i, k in enumerate(sorted(nd))})
    return c


def solid_case(cls, shapeName, rng, hasRange, pathNo, massless, given=None):
    mat = cls.__name__
    sid = "%s.%s" % (mat, shapeName)
    lo, hi = rng
    u = B.rng.uniform
    if given:  # --replay of a recorded case
        dims, Tin, Tstart, path = given["dims"], given["Tinput"], given["Tstart"], list(given["path"])
    else:
        dims = gen_dims(shapeName, u)
        Tin = u(lo, lo + 0.1 * (hi - lo))
        Tstart = Tin if pathNo % 2 == 0 else u(lo, hi)
        path = [u(lo, hi) for _ in range(NSTEPS)]
        if pathNo % 4 == 3:
            path[-2] = path[0]  # revisit a temperature
    desc = dict(material=mat, shape=shapeName, Tinput=Tin, Tstart=Tstart, path=path, dims=dims)
    B.case((mat, shapeName, pathNo), desc)
    try:
        c = build(shapeName, mat, Tin, Tstart, dims, massless)
        twin = build(shapeName, mat, Tin, Tstart, dims, massless)
    except Exception as e:  # noqa
        return bad("expansion.construct.%s" % sid, "real constructor failed: %r" % (e,), **desc)
    try:
        cold = {k: c.getDimension(k, cold=True) for k in dim_keys(c)}
        for k, v in dims.items():
            ok(cold.get(k) == v, "expansion.cold-dimension.%s" % sid, "cold dimension differs from the constructor input", key=k, **desc)
        coldArea = c.getArea(cold=True)
        s0 = state(c)
        f0 = c.getThermalExpansionFactor()
        p0 = P(c.material, Tin)
        ted = set(c.THERMAL_EXPANSION_DIMS)
        mph0 = {k: v * s0["area"] for k, v in s0["N"].items()}
        ok(coldArea > 0 and s0["area"] > 0, "expansion.testcase-area.%s" % sid, "test shape has no positive area", **desc)
        for step, T in enumerate([Tstart] + path):
            if step:
                c.setTemperature(T)
            f = c.getThermalExpansionFactor()
            here = dict(desc, step=step, T=T, factor=f)
            ok(close(f, (100.0 + P(c.material, T)) / (100.0 + p0)), "expansion.factor-formula.%s" % mat, "getThermalExpansionFactor() != (100+P(T))/(100+P(Tinput))", **here)
            ok(f > 0, "expansion.factor-nonpositive.%s" % mat, "expansion factor not positive", **here)
            for k in cold:
                want = cold[k] * f if k in ted else cold[k]
                got = c.getDimension(k)
                ok(close(got, want, 1e-12), "expansion.dimension-not-scaled.%s" % sid if k in ted else "expansion.dimension-changed.%s" % sid,
                   "expanding dimension != cold x factor" if k in ted else "non-expanding dimension changed", key=k, got=got, want=want, **here)
                ok(c.getDimension(k, cold=True) == cold[k], "expansion.cold-dimension-changed.%s" % sid, "cold read-out changed by a temperature change", key=k, **here)
            a = c.getArea()
            ok(close(a, coldArea * f * f), "expansion.area-not-factor-squared.%s" % sid, "area != cold area x factor^2", area=a, coldArea=coldArea, **here)
            N = c.getNumberDensities()
            ok(set(N) == set(mph0), "expansion.nuclides-changed.%s" % sid, "set of nuclides changed", **here)
            for nuc, m0 in mph0.items():
                if not ok(close(N[nuc] * a, m0), "expansion.mass-not-conserved.%s" % sid, "number density x area (mass per unit height) changed", nuclide=nuc, before=m0,
                          after=N[nuc] * a, **here):
                    break
                if not ok(close(N[nuc] * f * f, s0["N"][nuc] * f0 * f0), "expansion.density-not-reduced.%s" % sid, "number density did not shrink by factor^2", nuclide=nuc, **here):
                    break
        # path independence: the twin goes directly to the final temperature
        twin.setTemperature(path[-1])
        s1, s2 = state(c), state(twin)
        same = close(s1["area"], s2["area"]) and all(close(s1["dims"][k], s2["dims"][k]) for k in s1["dims"]) and all(close(s1["N"][k], s2["N"][k]) for k in s1["N"])
        ok(same, "expansion.path-dependent.%s" % sid, "end state differs from the state reached by going directly to the final temperature", viaPath=s1, direct=s2, **desc)
        # revisiting the start temperature restores the start state
        c.setTemperature(Tstart)
        s3 = state(c)
        ok(close(s3["area"], s0["area"]) and all(close(s3["N"][k], s0["N"][k]) for k in s0["N"]), "expansion.path-dependent.%s" % sid, "returning to the start temperature does not restore the start state",
           start=s0, back=s3, **desc)
        # a hot dimension set at the current (hot) temperature reads back
        c.setTemperature(path[-1])
        for k in sorted(cold):
            before = {j: c.getDimension(j) for j in cold}
            hot = before[k] * u(0.9, 0.99) if isinstance(before[k], float) and before[k] > 0 and k not in ("mult", "nHoles") else before[k]
            c.setDimension(k, hot, cold=False)
            after = {j: c.getDimension(j) for j in cold}
            ok(close(after[k], hot, 1e-12) and all(after[j] == before[j] for j in cold if j != k), "expansion.hot-dimension-readback.%s" % sid,
               "setDimension(hot) does not read back / disturbs another dimension", key=k, hot=hot, got=after[k], **desc)
            if k in ted:
                ok(close(c.getDimension(k, cold=True) * c.getThermalExpansionFactor(), hot, 1e-12), "expansion.hot-dimension-readback.%s" % sid, "cold value stored for a hot dimension is not hot / factor", key=k, **desc)
    except Exception as e:  # noqa
        return bad("expansion.raises.%s" % sid, "contract evaluation raised %r" % (e,), **desc)
    return True


def no_expansion_case(cls, massless):
    """A solid with P == 0 everywhere: asking for a hot dimension at another temperature refuses loudly; densities untouched."""
    mat = cls.__name__
    c = build("Circle", mat, 25.0, 25.0, dict(od=1.0, id=0.2, mult=3.0), massless)
    n0 = dict(c.getNumberDensities())
    c.setTemperature(400.0)
    refused = 0
    for probe in (lambda: c.getThermalExpansionFactor(), lambda: c.getDimension("od"), lambda: c.getArea()):
        try:
            probe()
        except RuntimeError:
            refused += 1
    B.case(("no-expansion", mat), {"material": mat, "refused": refused})
    ok(refused == 3, "expansion.silent-no-expansion.%s" % mat, "solid without expansion data gives hot dimensions at another temperature without refusing", material=mat, refused=refused)
    ok(dict(c.getNumberDensities()) == n0, "expansion.mass-not-conserved.%s.Circle" % mat, "densities of a non-expanding solid changed with temperature", material=mat)
    ok(c.getDimension("od", cold=True) == 1.0, "expansion.cold-dimension-changed.%s.Circle" % mat, "cold read-out changed", material=mat)


def fluid_case(cls, shapeName, rng, pathNo):
    mat = cls.__name__
    sid = "%s.%s" % (mat, shapeName)
    lo, hi = rng
    u = B.rng.uniform
    dims = gen_dims(shapeName, u)
    Tin, Tstart = u(lo, hi), u(lo, hi)
    path = [u(lo, hi) for _ in range(NSTEPS)]
    desc = dict(material=mat, shape=shapeName, Tinput=Tin, Tstart=Tstart, path=path, dims=dims)
    B.case((mat, shapeName, pathNo), desc)
    try:
        c = SHAPES[shapeName]("c", mat, Tin, Tstart, **dims)
        cold = {k: c.getDimension(k, cold=True) for k in dim_keys(c)}
        coldArea = c.getArea(cold=True)
        for T in [Tstart] + path:
            c.setTemperature(T)
            f = c.getThermalExpansionFactor()
            got = {k: c.getDimension(k) for k in cold}
            ok(f == 1.0 and got == cold and c.getArea() == coldArea, "expansion.fluid-dimension-changed.%s" % sid, "a fluid / Custom component changed a dimension or its area with temperature",
               T=T, factor=f, got=got, cold=cold, **desc)
            nd = c.getNumberDensities()
            ok(all(isinstance(v, (int, float)) and math.isfinite(v) and v >= 0 for v in nd.values()), "expansion.fluid-density-invalid.%s" % mat, "fluid number density not finite / negative",
               T=T, N={k: str(v) for k, v in nd.items()}, **desc)
    except Exception as e:  # noqa
        return bad("expansion.fluid-raises.%s" % mat, "changing the temperature of a fluid component raised %r" % (e,), **desc)
    return True


def link_case(fuelCls, cladCls, ranges, massless, gapMat):
    fm, cm = fuelCls.__name__, cladCls.__name__
    u = B.rng.uniform
    (flo, fhi), (clo, chi) = ranges[fm], ranges[cm]
    Tin = max(flo, clo)
    if Tin > min(fhi, chi):
        return
    fod = u(0.5, 1.0)
    cid = fod * u(1.05, 1.3)
    desc = dict(fuel=fm, clad=cm, gap=gapMat, Tinput=Tin, fuelOD=fod, cladID=cid)
    B.case(("link", fm, cm, gapMat), desc)
    try:
        mult = 7.0
        fuel = build("Circle", fm, Tin, Tin, dict(od=fod, id=0.0, mult=mult), massless)
        clad = build("Circle", cm, Tin, Tin, dict(od=cid * 1.2, id=cid, mult=mult), massless)
        comps = {"fuel": fuel, "clad": clad}
        # linked dimensions are given the way blueprints give them: "<component>.<dimension>", resolved by the constructor
        gap = basicShapes.Circle("gap", gapMat, Tin, Tin, od="clad.id", id="fuel.od", mult="fuel.mult", components=comps)
        solidGap = isinstance(gap.material, materialModule.Material) and not isinstance(gap.material, materialModule.Fluid)
        ok(gap.dimensionIsLinked("id") and gap.dimensionIsLinked("od") and gap.dimensionIsLinked("mult"), "expansion.link-not-resolved", "constructor did not resolve the dimension links", **desc)
        for step in range(NSTEPS + 1):
            if step:
                Tf, Tc = u(flo, fhi), u(clo, chi)
                fuel.setTemperature(Tf)
                clad.setTemperature(Tc)
                if step % 2 == 0:
                    fuel.setDimension("od", fuel.getDimension("od") * u(0.97, 0.999), cold=False)
            else:
                Tf = Tc = Tin
            here = dict(desc, step=step, Tfuel=Tf, Tclad=Tc)
            for key, other, okey in (("id", fuel, "od"), ("od", clad, "id"), ("mult", fuel, "mult")):
                for coldFlag in (False, True):
                    got, want = gap.getDimension(key, cold=coldFlag), other.getDimension(okey, cold=coldFlag)
                    ok(got == want, "expansion.linked-dimension.%s" % ("solid" if solidGap else "fluid"), "linked dimension != the other component's current dimension",
                       key=key, cold=coldFlag, got=got, want=want, **here)
            a = gap.getArea()
            want = mult * math.pi / 4.0 * (clad.getDimension("id") ** 2 - fuel.getDimension("od") ** 2)
            if want > 0:
                ok(close(a, want), "expansion.linked-area.%s" % ("solid" if solidGap else "fluid"), "area of the linked component is not the area between its neighbours", area=a, want=want, **here)
    except ArithmeticError:
        pass  # overlap of the neighbours after differential expansion: negative area of a solid is refused loudly
    except Exception as e:  # noqa
        return bad("expansion.raises.link.%s.%s" % (fm, cm), "contract evaluation raised %r" % (e,), **desc)


# ----------------------------------------------------------------------------------------------------------------------
def run(only=None):
    solids, fluids, skipped = classify()
    # shapes: my list must cover every 2-D ShapedComponent of the shape modules
    shapes3d, uncovered = [], []
    for mod in (basicShapes, complexShapes, volumetricShapes):
        for n, obj in vars(mod).items():
            if inspect.isclass(obj) and issubclass(obj, Component) and obj.__module__ == mod.__name__:
                if obj.is3D:
                    shapes3d.append(n)
                elif n not in SHAPES:
                    uncovered.append(n)
                    bad("expansion.shape-not-covered.%s" % n, "a 2-D shape class exists that this script does not construct", shape=n)
    massless, overrides, noexp, ranges, unstated = set(), {}, [], {}, []
    expanding = []
    for cls in solids:
        name = cls.__name__
        if only and only.get("material") not in (None, name) and only.get("fuel") != name and only.get("clad") != name:
            continue
        rng, stated = valid_range_C(cls, "linearExpansionPercent")
        if not stated:
            unstated.append(name)
        ranges[name] = rng
        m = cls()
        lo, hi = rng
        probe = [P(m, lo + (hi - lo) * i / 10.0) for i in range(11)]
        if all(p == 0 for p in probe):
            noexp.append(name)
            material_level(cls, rng, overrides)
            try:
                no_expansion_case(cls, massless)
            except Exception as e:  # noqa
                bad("expansion.raises.%s.Circle" % name, "contract evaluation raised %r" % (e,), material=name)
            continue
        if not material_level(cls, rng, overrides):
            continue
        expanding.append(cls)
        for shapeName in SHAPE_NAMES:
            if only and only.get("shape") not in (None, shapeName):
                continue
            if only and "path" in only and "dims" in only and only.get("shape") == shapeName:
                solid_case(cls, shapeName, rng, stated, 0, massless, given=only)
                continue
            for pathNo in range(NPATHS):
                solid_case(cls, shapeName, rng, stated, pathNo, massless)
    for cls in fluids:
        name = cls.__name__
        if only and only.get("material") not in (None, name):
            continue
        for meth in ("linearExpansionFactor", "getThermalExpansionDensityReduction"):
            owner = next(k for k in cls.__mro__ if meth in vars(k))
            if owner is not materialModule.Material:
                overrides.setdefault(meth, []).append("%s (defined in %s)" % (name, owner.__name__))
        try:
            cls().pseudoDensity(Tc=100.0)
        except NotImplementedError:
            skipped.append(name + " (abstract density)")
            continue
        except Exception:  # noqa
            pass
        rng, stated = valid_range_C(cls, "pseudoDensity", default=(20.0, 300.0))
        try:
            basicShapes.Circle("c", name, rng[0], rng[0], od=1.0)
        except Exception as e:  # noqa
            bad("expansion.construct.%s" % name, "a component of this material cannot be constructed: %r" % (e,), material=name, shape="Circle", Tinput=rng[0], dims={"od": 1.0})
            continue
        for shapeName in SHAPE_NAMES:
            if only and only.get("shape") not in (None, shapeName):
                continue
            failed = False
            for pathNo in range(max(1, NPATHS // 4)):
                if not fluid_case(cls, shapeName, rng, pathNo):
                    failed = True
                    break
            if failed:
                break  # the same failure for every shape and path: report it once
    if not only or "fuel" in only:
        for i, fcls in enumerate(expanding):
            partners = expanding if B.thorough() else [expanding[(i * 5 + 1 + B.seed) % len(expanding)], expanding[(i * 3 + 2) % len(expanding)]]
            for ccls in partners:
                if only and (only.get("fuel") != fcls.__name__ or only.get("clad") != ccls.__name__):
                    continue
                link_case(fcls, ccls, ranges, massless, "Void")
                link_case(fcls, ccls, ranges, massless, "Sodium" if B.rng.random() < 0.5 else "Custom")
                link_case(fcls, ccls, ranges, massless, ccls.__name__)  # a solid liner bonded to both
    B.extra.update(
        solid_materials=len(solids), solids_expanding=[c.__name__ for c in expanding], solids_without_expansion_data=noexp, fluid_or_custom_materials=[c.__name__ for c in fluids],
        materials_skipped_abstract=skipped, shapes=SHAPE_NAMES, shapes_skipped_3d=sorted(shapes3d), shapes_uncovered=uncovered, overrides=overrides,
        massless_solids=sorted(massless), solids_without_stated_expansion_range=unstated, paths=NPATHS, steps=NSTEPS,
        ranges_C={k: [round(v[0], 2), round(v[1], 2)] for k, v in ranges.items()},
    )


def main():
    real = sys.stdout
    sys.stdout = io.StringIO()
    try:
        run(only=B.replay if isinstance(B.replay, dict) else None)
    finally:
        sys.stdout = real
    if B.replay is not None:
        vid = B.replay.get("id") if isinstance(B.replay, dict) else None
        print(json.dumps({"result": "unsupported" if vid is None else ("fail" if vid in ALL_IDS else "pass"), "id": vid}))
        return
    B.extra["violation_ids_total"] = len(ALL_IDS)
    B.extra["violation_counts"] = dict(sorted(COUNTS.items())[:200])  # every id that fired (the list above is capped at 20)
    B.finish(exhaustive=False)


main()
