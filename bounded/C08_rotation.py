"""C08 bounded tier: rotation of REAL hex blocks / assemblies, and symmetric equivalents on real grids.

Executable contract of the block-rotation half of property C08 wrapped around the real
    HexBlock.rotate (-> _rotateChildLocations / _rotateBoundaryParameters / _rotateDisplacement), getPinCoordinates,
    HexAssembly.rotate, HexGrid.getSymmetricEquivalents, CartesianGrid.getSymmetricEquivalents
(imported from the tree under test; nothing is copied).  The index-level arithmetic is proved in contracts/C08_symmetry.py; here
the same statement is evaluated on blocks with real pin lattices.

Oracle: the rotation matrix R(k) of k x 60 degrees counter-clockwise, taken from the exact table
    cos = (1, 1/2, -1/2, -1, -1/2, 1/2)[k mod 6],  sin = (0, r, r, 0, -r, -r)[k mod 6],  r = sqrt(3)/2
applied to the coordinates read BEFORE the rotation.  After  b.rotate(k*pi/3)  (k in -K..K, also through math.radians(60 k)):
    pins.coordinates       getPinCoordinates()[n] = R(k) . previous getPinCoordinates()[n]      (same pin order, z unchanged)
    children.multi/.index/.free/.none   every child's locator keeps its kind, belongs to the block's grid, each (sub-)location's local
                           coordinates are R(k) . the previous ones; children without a locator keep none
    boundary.shift         every parameter located at CORNERS or EDGES holding 6 entries (list, 1-d or 2-d array): entry j is
                           found at (j + k) mod 6, values bit-identical, container kind kept
    frame.block-params / frame.component-params    no other parameter of the block or of its components changes (NaN-aware)
    displacement           (displacementX, displacementY) = R(k) . previous
    orientation            orientation[2] grew by 60 k modulo 360 (armi stores the accumulated angle); [0], [1] unchanged
    compose.additive       rotate(a) then rotate(b) leaves the same state as rotate(a + b);   period.six   rotate(2 pi) = identity
    grid.unchanged         the block's grid object and pitch are the same
Assemblies (HexAssembly.rotate):  assembly.every-block  each block is in the state its own rotation by k gives;
    assembly.refuses-multiple-of-60.{negative,positive}-k  an angle k*pi/3 is refused;  assembly.accepts-non-multiple  an angle that is
    not a multiple of 60 degrees (off by >= 0.01 degree) is not refused with ValueError;  assembly.refusal-changed-state
Grids:  equiv.hex-third.{count,image}  third-core equivalents of a real core grid are the 120 / 240 degree images of the cell centre;
    equiv.cart.{variant}.{count,image,missing}  quarter-core Cartesian equivalents are exactly the images of the cell centre under the
    90-degree rotations (periodic) / axis reflections (reflective), with and without a centre cell, on grids from fromRectangle and the
    C5G7 core grid.

Bound: see B.bound.  Blocks: the smallest test reactor's pin block (169 multi-location pins), seeded blocks of the default hex test
reactor (pin blocks and a block without grid), and a block built from blueprints in both hex orientations with an asymmetric pin lattice
(32 fuel pins, 36 + 1 clad positions) plus a single-location pin (IndexLocation), an off-centre free-coordinate child and a child
without locator added programmatically.
"""
import copy
import io
import json
import math
import os
import random
import sys
import tempfile
import time
import traceback

sys.path.insert(0, os.path.dirname(os.path.abspath(__file__)))
from common import Bounded, armi_ready

armi_ready()
import numpy as np
from armi import runLog, settings
from armi.reactor import blueprints, components, grids
from armi.reactor.assemblies import HexAssembly
from armi.reactor.blocks import HexBlock
from armi.reactor.flags import Flags
from armi.reactor.parameters import ParamLocation

B = Bounded(
    rule="case = (block, k): a fresh copy of the block with seeded per-corner / per-edge parameters (lists, 1-d and 2-d arrays, None, scalars, "
    "other lengths), displacement and start orientation is rotated by k*pi/3 and every clause is compared with the rotation matrix applied "
    "to the state read before; seeded pairs (a, b) for additivity; whole assemblies through HexAssembly.rotate for every k and for "
    "non-multiples of 60 degrees; symmetric equivalents of every cell within N rings of real core grids.  distinct = (block, k) / "
    "(assembly, angle) / (grid, cell); non-trivial = k mod 6 != 0 and the block has off-centre children",
    bound="quick: k in -12..12 (+ the same angles through math.radians), 3 built blocks x 2 orientations, smallest reactor block, 5 seeded "
    "blocks of the default reactor, 6 (a,b) pairs per block, 4 assemblies (2 built, the centre assembly, 1 seeded) x k in -12..12 and "
    "x 4 x 8 off angles, equivalents of all cells within N = 8 rings of 3 hex and 5 Cartesian grids.  thorough: k in -60..60, every "
    "block design of the default reactor (one block per (assembly type, block type)), 40 pairs, 7 assemblies, N = 30 rings",
)
T = B.thorough()
K = 60 if T else 12
NR = 30 if T else 8
R3 = math.sqrt(3.0) / 2.0
COS = (1.0, 0.5, -0.5, -1.0, -0.5, 0.5)
SIN = (0.0, R3, R3, 0.0, -R3, -R3)
counts = {}
B.extra["violation_counts"] = counts
B.extra["skipped"] = {}
B.extra["locator_kinds_rotated"] = {}
B.extra["boundary_kinds_rotated"] = {}
B.extra["blocks"] = []


def skip(why):
    B.extra["skipped"][why] = B.extra["skipped"].get(why, 0) + 1


def V(vid, what, inp):
    counts[vid] = counts.get(vid, 0) + 1
    if counts[vid] == 1 or B.replay is not None:
        B.violation(vid, what, inp)


def check(cond, vid, what, inp):
    if not cond:
        V(vid, what, inp)
    return cond


def rot(xy, k):
    """R(k) applied to an (..., 2+) array of coordinates; further columns (z) untouched."""
    a = np.array(xy, dtype=float)
    c, s = COS[k % 6], SIN[k % 6]
    out = a.copy()
    out[..., 0] = c * a[..., 0] - s * a[..., 1]
    out[..., 1] = s * a[..., 0] + c * a[..., 1]
    return out


def near(a, b, scale=1.0):
    a = np.asarray(a, dtype=float)
    b = np.asarray(b, dtype=float)
    return a.shape == b.shape and bool(np.all(np.abs(a - b) <= 1e-9 * max(1.0, scale)))


# ------------------------------------------------------------------------------------------------ state of a block
def is_boundary(pd):
    return pd.location is not None and bool(pd.location & (ParamLocation.CORNERS | ParamLocation.EDGES))


def six(v):
    return isinstance(v, (list, np.ndarray)) and len(v) == 6


def pcopy(v):
    if isinstance(v, np.ndarray):
        return v.copy()
    if isinstance(v, (list, dict, set)):
        return copy.deepcopy(v)
    return v


def peq(x, y):
    """bit-for-bit equality of parameter values, NaN-aware, container kind included"""
    if x is None or y is None:
        return x is y
    if isinstance(x, np.ndarray) or isinstance(y, np.ndarray):
        if not (isinstance(x, np.ndarray) and isinstance(y, np.ndarray)) or x.shape != y.shape:
            return False
        try:
            return bool(np.array_equal(x, y, equal_nan=True))
        except TypeError:
            return bool(np.array_equal(x, y))
    if isinstance(x, (list, tuple)) or isinstance(y, (list, tuple)):
        return type(x) is type(y) and len(x) == len(y) and all(peq(u, v) for u, v in zip(x, y))
    if isinstance(x, float) and isinstance(y, float) and math.isnan(x) and math.isnan(y):
        return True
    try:
        r = x == y
        return bool(r) if not isinstance(r, np.ndarray) else bool(r.all())
    except Exception:
        return repr(x) == repr(y)


def params_of(o, skipnames=()):
    out = {}
    for pd in o.p.paramDefs:
        if pd.name in skipnames:
            continue
        try:
            v = o.p[pd.name]
        except Exception:
            v = "<unset>"
        if isinstance(v, tuple) and len(v) == 2 and hasattr(v[0], "getDimension"):
            v = ("<link>", v[0].name, v[1])
        out[pd.name] = pcopy(v)
    return out


def locator_state(c):
    sl = c.spatialLocator
    if sl is None:
        return ("none", None, None)
    if isinstance(sl, grids.MultiIndexLocation):
        return ("multi", np.array([loc.getLocalCoordinates() for loc in sl], dtype=float).reshape(-1, 3), sl.grid)
    if isinstance(sl, grids.CoordinateLocation):
        return ("free", np.array(sl.getLocalCoordinates(), dtype=float), sl.grid)
    if isinstance(sl, grids.IndexLocation):
        return ("index", np.array(sl.getLocalCoordinates(), dtype=float), sl.grid)
    return ("other:" + type(sl).__name__, None, None)


def state(b):
    s = {}
    pins = b.getPinCoordinates()
    s["pins"] = np.array(pins, dtype=float).reshape(-1, 3) if np.size(pins) else np.zeros((0, 3))
    s["children"] = [locator_state(c) for c in b]
    s["params"] = params_of(b)
    s["cparams"] = [params_of(c) for c in b]
    s["grid"] = b.spatialGrid
    s["pitch"] = b.spatialGrid.pitch if b.spatialGrid is not None else None
    return s


def expected_state_check(b, S0, k, ctx, deep=True):
    """All single-rotation clauses: b (rotated by k steps) against the state S0 read before."""
    S1 = state(b)
    scale = max([1.0] + [float(np.max(np.abs(S0["pins"])))] if len(S0["pins"]) else [1.0])
    # pins
    exp = rot(S0["pins"], k)
    check(near(S1["pins"], exp, scale), "pins.coordinates", "getPinCoordinates() is not the previous coordinates rotated by k x 60 degrees counter-clockwise",
          dict(ctx, first_bad=_first_bad(S1["pins"], exp, scale)))
    # children
    check(len(S1["children"]) == len(S0["children"]), "children.count", "number of children changed", ctx)
    for ci, (old, new) in enumerate(zip(S0["children"], S1["children"])):
        kind = old[0]
        if kind == "none":
            check(new[0] == "none", "children.none", "a child without locator got one", dict(ctx, child=ci, now=new[0]))
            continue
        if kind.startswith("other"):
            skip("child with an unsupported locator kind")
            continue
        B.extra["locator_kinds_rotated"][kind] = B.extra["locator_kinds_rotated"].get(kind, 0) + 1
        ok = new[0] == kind and new[1] is not None and near(new[1], rot(old[1], k), scale)
        check(ok, "children." + kind, "a child's locator is not of the same kind at the rotated coordinates",
              dict(ctx, child=ci, kind=kind, now=new[0], first_bad=None if new[1] is None else _first_bad(new[1].reshape(-1, 3), rot(old[1], k).reshape(-1, 3), scale)))
        check(new[2] is b.spatialGrid, "children.grid", "a rotated locator does not belong to the block's grid", dict(ctx, child=ci, kind=kind))
    check(S1["grid"] is S0["grid"] and S1["pitch"] == S0["pitch"], "grid.unchanged", "the block's grid changed", ctx)
    # parameters
    bad_shift, bad_frame = [], []
    for pd in b.p.paramDefs:
        name = pd.name
        old, new = S0["params"][name], S1["params"][name]
        if name == "orientation":
            o0, o1 = np.asarray(old, dtype=float), np.asarray(new, dtype=float)
            d = (o1[2] - o0[2] - 60.0 * k) % 360.0
            check(min(d, 360.0 - d) < 1e-9 and o1[0] == o0[0] and o1[1] == o0[1], "orientation", "orientation did not grow by 60 k degrees (modulo 360) about z only",
                  dict(ctx, before=o0.tolist(), after=o1.tolist()))
            continue
        if name in ("displacementX", "displacementY"):
            continue
        if is_boundary(pd) and six(old):
            kind = "list" if isinstance(old, list) else "array%dd" % old.ndim
            B.extra["boundary_kinds_rotated"][kind] = B.extra["boundary_kinds_rotated"].get(kind, 0) + 1
            ok = type(new) is type(old) and len(new) == 6 and all(peq(new[(j + k) % 6], old[j]) for j in range(6))
            if ok and isinstance(old, np.ndarray):
                ok = new.shape == old.shape and new.dtype == old.dtype
            if not ok:
                bad_shift.append([name, kind, _brief(old), _brief(new)])
        elif not peq(old, new):
            bad_frame.append([name, _brief(old), _brief(new)])
    check(not bad_shift, "boundary.shift", "a length-6 per-corner / per-edge parameter is not shifted so that entry j sits at (j + k) mod 6", dict(ctx, bad=bad_shift[:3]))
    check(not bad_frame, "frame.block-params", "a block parameter that is not per-corner / per-edge data of length 6 changed", dict(ctx, bad=bad_frame[:3]))
    dx0, dy0 = S0["params"].get("displacementX"), S0["params"].get("displacementY")
    dx1, dy1 = S1["params"].get("displacementX"), S1["params"].get("displacementY")
    if dx0 is not None and dy0 is not None:
        e = rot(np.array([dx0, dy0], dtype=float), k)
        check(dx1 is not None and dy1 is not None and near([dx1, dy1], e, max(abs(dx0), abs(dy0))), "displacement", "displacement vector is not rotated by the matrix",
              dict(ctx, before=[dx0, dy0], after=[dx1, dy1], expected=e.tolist()))
    else:
        check(peq(dx0, dx1) and peq(dy0, dy1), "displacement", "an unset displacement changed", dict(ctx, before=[dx0, dy0], after=[dx1, dy1]))
    if deep:
        bad = []
        for ci, (old, new) in enumerate(zip(S0["cparams"], S1["cparams"])):
            for name in old:
                if not peq(old[name], new.get(name)):
                    bad.append([ci, name, _brief(old[name]), _brief(new.get(name))])
        check(not bad, "frame.component-params", "a component parameter changed", dict(ctx, bad=bad[:3]))
    return S1


def _brief(v):
    s = repr(v.tolist() if isinstance(v, np.ndarray) else v)
    return s if len(s) < 120 else s[:120] + "..."


def _first_bad(got, exp, scale):
    got, exp = np.asarray(got, dtype=float), np.asarray(exp, dtype=float)
    if got.shape != exp.shape:
        return {"shape": [list(got.shape), list(exp.shape)]}
    for n in range(len(got)):
        if np.any(np.abs(got[n] - exp[n]) > 1e-9 * max(1.0, scale)):
            return {"n": n, "got": got[n].tolist(), "expected": exp[n].tolist()}
    return None


def same_state(S1, S2, ctx, vid, what):
    """Two block states are equal (coordinates within 1e-9, parameters bit-identical, orientation modulo 360)."""
    scale = max([1.0] + [float(np.max(np.abs(S1["pins"])))] if len(S1["pins"]) else [1.0])
    bad = []
    if not near(S1["pins"], S2["pins"], scale):
        bad.append(["pins", _first_bad(S1["pins"], S2["pins"], scale)])
    for ci, (x, y) in enumerate(zip(S1["children"], S2["children"])):
        if x[0] != y[0] or (x[1] is not None and not near(x[1], y[1], scale)):
            bad.append(["child", ci, x[0], y[0]])
    for name, v in S1["params"].items():
        w = S2["params"][name]
        if name == "serialNum":  # identity of the copy
            continue
        if name == "orientation":
            d = (np.asarray(v, dtype=float)[2] - np.asarray(w, dtype=float)[2]) % 360.0
            if min(d, 360.0 - d) > 1e-9:
                bad.append([name, _brief(v), _brief(w)])
        elif name in ("displacementX", "displacementY"):
            if (v is None) != (w is None) or (v is not None and abs(v - w) > 1e-9 * max(1.0, abs(v))):
                bad.append([name, v, w])
        elif not peq(v, w):
            bad.append([name, _brief(v), _brief(w)])
    check(not bad, vid, what, dict(ctx, differences=bad[:4]))


# ------------------------------------------------------------------------------------------------ blocks under test
BP = """
blocks:
    pinblock: &block_pins
        grid name: pins
        fuel:
            shape: Circle
            material: UZr
            Tinput: 25.0
            Thot: 600.0
            id: 0.0
            od: 0.7
            latticeIDs: [1]
        clad:
            shape: Circle
            material: HT9
            Tinput: 25.0
            Thot: 450.0
            id: .77
            od: .80
            latticeIDs: [1,2]
        test clad:
            shape: Circle
            material: HT9
            Tinput: 25.0
            Thot: 450.0
            id: .5
            od: .60
            latticeIDs: [3]
        coolant:
            shape: DerivedShape
            material: Sodium
            Tinput: 450.0
            Thot: 450.0
        duct:
            shape: Hexagon
            material: HT9
            Tinput: 25.0
            Thot: 450.0
            ip: 16.0
            mult: 1.0
            op: 16.6
assemblies:
    fuel:
        specifier: IC
        blocks:  [*block_pins, *block_pins, *block_pins]
        height: [25.0, 10.0, 5.0]
        axial mesh points:  [1, 1, 1]
        xs types: [A, A, A]
grids:
    pins:
       geom: %s
       symmetry: full
       grid contents:
%s
"""


def lattice(rings):
    """asymmetric under every rotation: guide positions (id 2) and the single test position (id 3) have no rotated partner"""
    out = []
    for i in range(-rings, rings + 1):
        for j in range(-rings, rings + 1):
            if max(abs(i), abs(j), abs(i + j)) <= rings:
                ident = "3" if (i, j) == (2, -1) else "2" if (i, j) in ((0, 0), (1, 1), (-3, 2), (0, -2)) else "1"
                out.append("         ? - %d\n           - %d\n         : '%s'\n" % (i, j, ident))
    return "".join(out)


def built_assembly(geom):
    cs = settings.Settings()
    with io.StringIO(BP % (geom, lattice(3))) as stream:
        bp = blueprints.Blueprints.load(stream)
        bp._prepConstruction(cs)
    a = bp.assemDesigns.bySpecifier["IC"].construct(cs, bp)
    # block 0: as built (multi-location pins, centred free-coordinate children)
    # block 1: + a single-location pin, an off-centre free-coordinate child, a child without locator
    b = a[1]
    g = b.spatialGrid
    single = components.Circle("single clad", "HT9", 25.0, 450.0, od=0.5, id=0.4, mult=1)
    b.add(single)
    single.spatialLocator = g[3, -2, 0]
    probe = components.Circle("instrument", "HT9", 25.0, 450.0, od=0.2, mult=1)
    b.add(probe)
    probe.spatialLocator = grids.CoordinateLocation(1.3, -0.45, 0.25, g)
    loose = components.Circle("loose part", "HT9", 25.0, 450.0, od=0.1, mult=1)
    b.add(loose)  # its locator is removed on every working copy (fresh_copy): a block holding a locator-less child cannot be deep-copied
    # block 2: only single-location pins next to the lattice (clad-flagged, IndexLocation), two of them
    b2 = a[2]
    g2 = b2.spatialGrid
    for n, (i, j) in enumerate(((1, 2), (-2, -1))):
        c = components.Circle("extra clad %d" % n, "HT9", 25.0, 450.0, od=0.5, id=0.4, mult=1)
        b2.add(c)
        c.spatialLocator = g2[i, j, 0]
    return a


def seed_block(b, rng):
    """per-corner / per-edge data of every kind, displacement, start orientation; returns what was assigned"""
    names = [pd.name for pd in b.p.paramDefs if is_boundary(pd)]
    kinds = ["list", "array", "array2d", "list", "array", "none", "scalar", "empty", "short"]
    rng.shuffle(kinds)
    assigned = {}

    def val():
        # assumption review: boundary data were drawn from 1..9 only; negative values, exact zeros and a value shared by two
        # entries (temperatures differences, zero fluxes) are boundary-parameter vectors too
        r = rng.random()
        return 0.0 if r < 0.1 else (2.5 if r < 0.2 else rng.uniform(-9.0, 9.0))

    for name, kind in zip(names, kinds * 3):
        if kind == "list":
            v = [val() for _ in range(6)]
        elif kind == "array":
            v = np.array([val() for _ in range(6)])
        elif kind == "array2d":
            v = np.array([[val() for _ in range(3)] for _ in range(6)])
        elif kind == "none":
            v = None
        elif kind == "scalar":
            v = val()
        elif kind == "empty":
            v = []
        else:
            v = [1.0, 2.0, 3.0]
        try:
            b.p[name] = v
            assigned[name] = kind
        except Exception:
            skip("parameter does not accept a value of kind " + kind)
            continue
        stored = b.p[name]
        if isinstance(stored, np.ndarray) and stored.ndim == 0:  # array-typed parameter given a scalar: not a boundary vector, outside the quantifier
            b.p[name] = None
            skip("scalar assigned to an array-typed boundary parameter (stored as 0-d array)")
    # pin-wise (not boundary) data must not move: the pin it belongs to is found through getPinCoordinates
    n = b.getNumPins() if len(b) else 0
    if n:
        b.p.linPowByPin = np.arange(n, dtype=float) + 0.5
    b.p.displacementX = rng.choice([0.0, rng.uniform(-2.0, 2.0)])
    b.p.displacementY = rng.uniform(-2.0, 2.0)
    b.p.orientation = np.array([0.0, 0.0, rng.choice([0.0, 0.0, 60.0, 240.0])])
    return assigned


def fresh_copy(base):
    f = copy.deepcopy(base)
    for b in (f if isinstance(f, HexAssembly) else [f]):
        for c in b:
            if c.name == "loose part":
                c.spatialLocator = None
    return f


def rad_of(k, how):
    return k * math.pi / 3 if how == "pi/3" else math.radians(60 * k)


def block_cases(label, base, rng, pairs, deep):
    """base: a seeded block (not modified: every case works on a deep copy)"""
    S0 = state(fresh_copy(base))
    off_centre = any(st[1] is not None and np.any(np.abs(st[1].reshape(-1, 3)[:, :2]) > 1e-12) for st in S0["children"])
    B.extra["blocks"].append({"block": label, "pins": int(len(S0["pins"])), "locators": sorted({st[0] for st in S0["children"]})})
    for how in ("pi/3", "radians"):
        for k in range(-K, K + 1):
            ctx = {"block": label, "k": k, "angle": how}
            fresh = fresh_copy(base)
            S0 = state(fresh)
            B.case((label, k, how), sample=ctx if k == 1 else None, nontrivial=(k % 6 != 0) and off_centre)
            try:
                fresh.rotate(rad_of(k, how))
            except Exception as e:
                tb = traceback.extract_tb(e.__traceback__)[-1]
                V("rotate.raises", "HexBlock.rotate raised for a multiple of 60 degrees", dict(ctx, error=repr(e)[:200], at="%s:%s" % (os.path.basename(tb.filename), tb.lineno)))
                continue
            S1 = expected_state_check(fresh, S0, k, ctx, deep=deep)
            if k % 6 == 0 and k != 0:
                same_state(S1, S0, ctx, "period.six", "a rotation by a multiple of 360 degrees is not the identity")
    for _ in range(pairs):
        a, c = rng.randint(-K, K), rng.randint(-K, K)
        ctx = {"block": label, "a": a, "b": c}
        B.case((label, "pair", a, c), nontrivial=off_centre)
        two = fresh_copy(base)
        one = fresh_copy(base)
        S0two = state(two)
        try:
            two.rotate(rad_of(a, "pi/3"))
            two.rotate(rad_of(c, "pi/3"))
            one.rotate(rad_of(a + c, "pi/3"))
        except Exception as e:
            V("rotate.raises", "HexBlock.rotate raised for a multiple of 60 degrees", dict(ctx, error=repr(e)[:200]))
            continue
        same_state(state(two), state(one), ctx, "compose.additive", "rotate(a) then rotate(b) differs from rotate(a + b)")
        expected_state_check(two, S0two, a + c, dict(ctx, k=a + c), deep=False)
    # k = 6 in six single steps
    six_steps = fresh_copy(base)
    S0 = state(six_steps)
    for _ in range(6):
        six_steps.rotate(math.pi / 3)
    B.case((label, "6x1"), nontrivial=off_centre)
    same_state(state(six_steps), S0, {"block": label, "steps": "6 x 60 degrees"}, "period.six", "six single 60-degree rotations are not the identity")


OFF_DEGREES = (0.01, 1.0, 20.0, 30.0, 40.0, 59.0, -17.0, 59.99)


def assembly_cases(label, base, rng):
    S0 = [state(b) for b in fresh_copy(base)]
    for k in range(-K, K + 1):
        ctx = {"assembly": label, "k": k}
        B.case((label, "assembly", k), sample=ctx if k == 1 else None, nontrivial=k % 6 != 0)
        a = fresh_copy(base)
        S0 = [state(b) for b in a]
        try:
            a.rotate(k * math.pi / 3)
        except ValueError as e:
            V("assembly.refuses-multiple-of-60." + ("negative-k" if k < 0 else "positive-k"), "HexAssembly.rotate refuses an angle k*pi/3", dict(ctx, radians=k * math.pi / 3, error=str(e)[:120]))
            bad = [i for i, (b, s) in enumerate(zip(a, S0)) if not _unchanged(b, s)]
            check(not bad, "assembly.refusal-changed-state", "a refused rotation changed a block", dict(ctx, blocks=bad))
            continue
        except Exception as e:
            V("rotate.raises", "HexAssembly.rotate raised", dict(ctx, error=repr(e)[:200]))
            continue
        for bi, (b, s) in enumerate(zip(a, S0)):
            before = len(B.violations), dict(counts)
            expected_state_check(b, s, k, dict(ctx, block=bi), deep=False)
            if dict(counts) != before[1]:
                V("assembly.every-block", "HexAssembly.rotate did not leave every block rotated by the angle", dict(ctx, block=bi))
    for k in (0, 1, 4, -2) if not T else range(-6, 7):
        for off in OFF_DEGREES:
            ang = math.radians(60.0 * k + off)
            ctx = {"assembly": label, "degrees": 60.0 * k + off}
            B.case((label, "off", k, off), nontrivial=True)
            a = fresh_copy(base)
            S0 = [state(b) for b in a]
            try:
                a.rotate(ang)
                V("assembly.accepts-non-multiple", "HexAssembly.rotate accepted an angle that is not a multiple of 60 degrees", ctx)
            except ValueError:
                bad = [i for i, (b, s) in enumerate(zip(a, S0)) if not _unchanged(b, s)]
                check(not bad, "assembly.refusal-changed-state", "a refused rotation changed a block", dict(ctx, blocks=bad))
            except Exception as e:
                V("rotate.raises", "HexAssembly.rotate raised something else than ValueError", dict(ctx, error=repr(e)[:200]))


def _unchanged(b, S0):
    S1 = state(b)
    if not near(S1["pins"], S0["pins"]):
        return False
    return all(peq(S0["params"][n], S1["params"][n]) for n in S0["params"])


# ------------------------------------------------------------------------------------------------ grids
def hexdist(i, j):
    return max(abs(i), abs(j), abs(i + j))


def grid_cases(core_hex, core_cart):
    # hex third core: the real core grid of the default test reactor, and fromPitch grids of both orientations
    hexgrids = [("default-core", core_hex.spatialGrid)]
    for cu in (False, True):
        hexgrids.append(("fromPitch-%s" % ("corners" if cu else "flats"), grids.HexGrid.fromPitch(16.79, numRings=3, cornersUp=cu, symmetry="third periodic")))
    for name, g in hexgrids:
        pitch = g.pitch
        for i in range(-NR, NR + 1):
            for j in range(-NR, NR + 1):
                if hexdist(i, j) >= NR:
                    continue
                B.case(("hexgrid", name, i, j), sample={"grid": name, "cell": [i, j]} if (i, j) == (1, 2) else None, nontrivial=(i, j) != (0, 0))
                eqs = g.getSymmetricEquivalents((i, j, 0))
                xy = np.array(g.getCoordinates((i, j, 0)), dtype=float)
                ctx = {"grid": name, "cell": [i, j], "equivalents": [list(e) for e in eqs]}
                if (i, j) == (0, 0):
                    check(len(eqs) == 0, "equiv.hex-third.count", "the centre cell has symmetric equivalents", ctx)
                    continue
                if not check(len(eqs) == 2, "equiv.hex-third.count", "a third-core cell does not have exactly two equivalents", ctx):
                    continue
                for n, e in enumerate(eqs):
                    got = np.array(g.getCoordinates((e[0], e[1], 0)), dtype=float)
                    exp = rot(xy, 2 * (n + 1))
                    check(near(got, exp, pitch * NR), "equiv.hex-third.image", "an equivalent is not the 120 / 240 degree image of the cell centre", dict(ctx, n=n, got=got.tolist(), expected=exp.tolist()))
                members = [(i, j)] + [tuple(e[:2]) for e in eqs]
                inside = [m for m in members if g.isInFirstThird(g[m[0], m[1], 0])]
                check(len(inside) == 1, "equiv.hex-third.one-in-domain", "not exactly one member of the orbit lies in the modelled third", dict(ctx, inside=[list(m) for m in inside]))
    # Cartesian quarter core
    variants = []
    for through in (True, False):
        for boundary in ("periodic", "reflective"):
            sym = "quarter %s%s" % (boundary, " through center assembly" if through else "")
            w, h = (1.26, 1.26) if boundary == "periodic" else (1.26, 2.5)
            variants.append(("%s-%s" % (boundary, "centred" if through else "split"), grids.CartesianGrid.fromRectangle(w, h, numRings=5, symmetry=sym, isOffset=not through), boundary, through))
    if core_cart is not None:
        g = core_cart.spatialGrid
        variants.append(("c5g7-core", g, "periodic" if "periodic" in str(g.symmetry) else "reflective", "through center" in str(g.symmetry)))
    for name, g, boundary, through in variants:
        scale = NR * max(abs(g.getCoordinates((1, 1, 0))[0]), abs(g.getCoordinates((1, 1, 0))[1]))
        for i in range(-NR, NR + 1):
            for j in range(-NR, NR + 1):
                B.case(("cartgrid", name, i, j), sample={"grid": name, "cell": [i, j]} if (i, j) == (1, 2) else None)
                eqs = g.getSymmetricEquivalents((i, j))
                x, y = (float(v) for v in g.getCoordinates((i, j, 0))[:2])
                if boundary == "periodic":
                    images = [(-y, x), (-x, -y), (y, -x)]
                else:
                    images = [(-x, y), (-x, -y), (x, -y)]
                distinct = []
                for im in images:  # images other than the cell itself, each once
                    if math.hypot(im[0] - x, im[1] - y) > 1e-9 * scale and not any(math.hypot(im[0] - d[0], im[1] - d[1]) <= 1e-9 * scale for d in distinct):
                        distinct.append(im)
                got = [tuple(float(v) for v in g.getCoordinates((e[0], e[1], 0))[:2]) for e in eqs]
                ctx = {"grid": name, "symmetry": str(g.symmetry), "cell": [i, j], "equivalents": [list(e) for e in eqs], "centre": [x, y]}
                vid = "equiv.cart." + name
                bad = [p for p in got if not any(math.hypot(p[0] - im[0], p[1] - im[1]) <= 1e-9 * scale for im in images)]
                check(not bad, vid + ".image", "a reported equivalent is not an image of the cell centre under the grid's symmetry group", dict(ctx, not_images=bad))
                miss = [im for im in distinct if not any(math.hypot(p[0] - im[0], p[1] - im[1]) <= 1e-9 * scale for p in got)]
                check(not miss, vid + ".missing", "an image of the cell centre is not among the reported equivalents", dict(ctx, missing=miss))
                check(len(got) == len(distinct) and len(set(tuple(e) for e in map(tuple, eqs))) == len(eqs), vid + ".count", "equivalents are not exactly the distinct images, each once", dict(ctx, images=distinct))
                cells = [(i, j)] + [tuple(e[:2]) for e in eqs]
                inside = [c for c in cells if g.locatorInDomain(g[c[0], c[1], 0])]
                on_axis = through and (i == 0 or j == 0)
                if not on_axis:
                    check(len(inside) == 1, vid + ".one-in-domain", "not exactly one member of the orbit lies in the modelled quarter", dict(ctx, inside=[list(c) for c in inside]))


# ------------------------------------------------------------------------------------------------ driver
def main():
    runLog.setVerbosity("header")
    here = os.getcwd()
    rng = B.rng
    with tempfile.TemporaryDirectory() as tmp:
        os.chdir(tmp)
        try:
            from armi.reactor.tests.test_reactors import loadTestReactor
            from armi.tests import TEST_ROOT

            blocks_todo = []  # (label, block, deep)
            assems_todo = []
            for geom in ("hex_corners_up", "hex"):
                a = built_assembly(geom)
                for bi, b in enumerate(a):
                    blocks_todo.append(("built-%s-%d" % (geom, bi), b, True))
                assems_todo.append(("built-%s" % geom, a))
            o, r = loadTestReactor(inputFileName="smallestTestReactor/armiRunSmallest.yaml")
            runLog.setVerbosity("header")
            for a in r.core:
                for bi, b in enumerate(a):
                    blocks_todo.append(("smallest-%d" % bi, b, False))
            o2, r2 = loadTestReactor()
            runLog.setVerbosity("header")
            seen = {}
            for ai, a in enumerate(r2.core):
                for bi, b in enumerate(a):
                    seen.setdefault((a.getType(), b.getType()), ("default-a%d-b%d(%s/%s)" % (ai, bi, a.getType(), b.getType()), b))
            designs = [seen[k] for k in sorted(seen)]
            withgrid = [d for d in designs if d[1].spatialGrid is not None]
            nogrid = [d for d in designs if d[1].spatialGrid is None]
            chosen = designs if T else rng.sample(withgrid, min(4, len(withgrid))) + nogrid[:1]
            for label, b in chosen:
                blocks_todo.append((label, b, False))
            real = [a for a in r2.core if isinstance(a, HexAssembly)]
            assems_todo.append(("default-centre", r2.core.childrenByLocator[r2.core.spatialGrid[0, 0, 0]]))
            for a in rng.sample(real, 4 if T else 1):
                assems_todo.append(("default-%s" % a.getName(), a))
            try:
                o3, r3 = loadTestReactor(inputFilePath=TEST_ROOT, inputFileName="c5g7/c5g7-settings.yaml")
                cart = r3.core
            except Exception as e:
                cart = None
                skip("C5G7 Cartesian core not loadable: " + repr(e)[:80])
            runLog.setVerbosity("header")

            if B.replay is not None:
                d = B.replay
                todo = {l: (b, deep) for l, b, deep in blocks_todo}
                if "block" in d and d["block"] in todo and "k" in d:
                    base = copy.deepcopy(todo[d["block"]][0])
                    seed_block(base, random.Random("C08:%s:%s" % (B.seed, d["block"])))
                    fresh = fresh_copy(base)
                    S0 = state(fresh)
                    fresh.rotate(rad_of(d["k"], d.get("angle", "pi/3")))
                    expected_state_check(fresh, S0, d["k"], d)
                print(json.dumps({"result": "fail" if B.violations else "pass", "violations": [v["id"] for v in B.violations], "input": d}, default=str))
                return

            for label, b, deep in blocks_todo:
                base = copy.deepcopy(b)
                if not isinstance(base, HexBlock):
                    skip("not a hex block")
                    continue
                seed_block(base, random.Random("C08:%s:%s" % (B.seed, label)))
                block_cases(label, base, rng, 40 if T else 6, deep)
            B.extra["t_blocks"] = round(time.time() - B.t0, 1)
            for label, a in assems_todo:
                base = copy.deepcopy(a)
                for bi, b in enumerate(base):
                    seed_block(b, random.Random("C08:%s:%s:%d" % (B.seed, label, bi)))
                assembly_cases(label, base, rng)
            B.extra["t_assemblies"] = round(time.time() - B.t0, 1)
            grid_cases(r2.core, cart)
        finally:
            os.chdir(here)
    B.finish(exhaustive=False)


main()
