#!/bin/bash
# usage: tools/try_patch.sh <patch.diff> <harness file> [lemma ...]   run lemmas symbolically on a scratch worktree with the patch applied
VERIF=$(cd "$(dirname "$0")/.." && pwd)
WT=$(mktemp -d /tmp/trypatch.XXXXXX); rmdir "$WT"
git -C /repo worktree add --detach "$WT" HEAD -q || exit 9
trap 'git -C /repo worktree remove --force "$WT" >/dev/null 2>&1' EXIT
git -C "$WT" apply "$(realpath $1)" || exit 8
H=$2; shift; shift
cd "$VERIF" && ARMI_REPO="$WT" python3-vt -m pyvc.run "$H" ${1:+--only "$@"} | cut -c1-260 | grep -v " ok .* [0-9]*/[0-9]* " | head -${TRY_LINES:-12}
