#!/bin/bash
# usage: tools/eval_seed_wt.sh <seeded/<id> dir>     re-evaluates a kept seeded change WITHOUT touching /repo:
# scratch worktree of /repo HEAD (outside /repo and /verif) -> demo without patch -> apply patch -> demo with patch ->
# stable baseline -> ARMI_REPO=<worktree> ./check <property> --tier quick -> worktree removed.  Updates <dir>/meta.json.
set -u
VERIF=$(cd "$(dirname "$0")/.." && pwd)
D=$(realpath "$1"); P=$(python3 -c "import json;m=json.load(open('$D/meta.json'));print(m.get('breaks_property') or m['property'])")
case "$D" in "$VERIF"/seeded/*) ;; *)  # a fresh seed from a seeding agent: adopt it as seeded/<P>-<slug>
  N="$VERIF/seeded/$P-$(basename "$D")"; if [ -e "$N" ]; then N="$N-${ROUND:-again}"; fi; mkdir -p "$N"; cp "$D/patch.diff" "$D/demo.py" "$D/meta.json" "$N/"; D="$N";
  python3 -c "import json;p='$D/meta.json';m=json.load(open(p));m['breaks_property']=m.get('breaks_property') or m['property'];json.dump(m,open(p,'w'),indent=1)";;
esac
if python3 -c "import json,sys;sys.exit(0 if json.load(open('$D/meta.json')).get('obsolete') else 1)"; then echo "$(basename $D): obsolete (see meta.json) - skipped"; exit 0; fi
WT=$(mktemp -d /tmp/evalseedwt.XXXXXX); rmdir "$WT"
git -C /repo worktree add --detach "$WT" HEAD -q || exit 9
trap 'git -C /repo worktree remove --force "$WT" >/dev/null 2>&1; rm -f /tmp/evalseed_$$_*.log' EXIT
run_demo() { (cd "$WT" && PYTHONPATH="$WT" timeout 900 /venv/bin/python "$D/demo.py" >/tmp/evalseed_$$_demo.log 2>&1; echo $?); }
W0=$(run_demo)
git -C "$WT" apply "$D/patch.diff" || { echo "$(basename $D): PATCH DOES NOT APPLY"; exit 8; }
W1=$(run_demo)
BL=$(python3 "$VERIF/tools/check_baseline.py" "$WT" | head -1)
(cd "$VERIF" && ARMI_REPO="$WT" ./check "$P" > /tmp/evalseed_$$_check.log 2>&1); RC=$?
echo "$(basename $D): demo without rc=$W0 with rc=$W1 ; $BL ; check $P rc=$RC"
python3 - "$D/meta.json" "$P" "$W0" "$W1" "$BL" "$RC" /tmp/evalseed_$$_check.log <<'PY'
import json,sys,re
dst,P,w0,w1,bl,rc,logf=sys.argv[1:8]
m=json.load(open(dst))
log=open(logf).read()
viol=sorted(set(re.findall(r"replay=\S*/replay/[A-Z0-9]+/(\S+?)\.json", log)))
m.update({"confirmed":{"demo_without_patch_rc":int(w0),"demo_with_patch_rc":int(w1),"stable_baseline_with_patch":bl},
 "ran":"tools/eval_seed_wt.sh: scratch worktree of /repo HEAD (demo with/without, full test suite vs 881 stable tests), then ARMI_REPO=<worktree> ./check %s --tier quick; worktree removed"%P,
 "check_exit_code":int(rc),"detected":int(rc)==1,"obligations_or_ids_that_fired":viol[:40],
 "undecided_or_errors":[l[:200] for l in log.splitlines() if l.startswith(("UNDECIDED","ERROR"))][:5]})
json.dump(m,open(dst,'w'),indent=1)
PY
