#!/bin/sh
# developer tool: run every engine self-test (tools/selftest/*.py) symbolically and natively.  Expected: every lemma `ok`
# symbolically and passing natively, EXCEPT refused_constructs.py and the guarded_* lemmas of list_iteration.py, which must be
# `unsupported` symbolically (the engine refuses them) while passing natively.
cd "$(dirname "$0")/.."
OUT=$(mktemp -d /tmp/selftest.XXXXXX)
trap 'rm -rf "$OUT"; rm -f contracts/T00_*.py' EXIT
python3-vt tools/selftest/builtin_binding.py | tail -1   # a standalone script (prints OK)
for f in tools/selftest/*.py; do
  n=$(basename $f .py); [ $n = builtin_binding ] && continue; cp $f contracts/T00_$n.py
done
ls contracts/T00_*.py | xargs -P ${J:-8} -I{} sh -c 'n=$(basename {} .py); python3-vt -m pyvc.run {} > '"$OUT"'/$n.sym 2>&1; PYTHONPATH=/repo:contracts /venv/bin/python contracts/native_runner.py cross {} --n ${N:-20} > '"$OUT"'/$n.nat 2>&1'
for f in "$OUT"/*.sym; do
  n=$(basename $f .sym)
  case $n in
    T00_refused_constructs) bad=$(grep -E "^[a-zA-Z_0-9]+ +" $f | grep -v " unsupported " | grep -cv "^$");;
    T00_list_iteration) bad=$(grep -E "^[a-zA-Z_0-9]+ +" $f | grep -v "^guarded_" | grep -vc " ok ");;
    *) bad=$(grep -E "^[a-zA-Z_0-9]+ +" $f | grep -vc " ok ");;
  esac
  nat=$(python3 -c "
import json,sys
l=[x for x in open('$OUT/$n.nat') if x.startswith('{')]
d=json.loads(l[-1]) if l else {}
print(sum(1 for v in d.values() if v.get('fails') or not v.get('passed')) if d else 'NO-OUTPUT')")
  echo "$n lemmas=$(grep -cE '^[a-zA-Z_0-9]+ +(ok|unsupported|refuted|error|undecided|timeout)' $f) symbolic-unexpected=$bad native-failing=$nat"
  [ "$bad" != 0 ] && grep -E "^[a-zA-Z_0-9]+ +" $f | grep -v " ok " | cut -c1-220 | head -8
done
