#!/bin/sh
# developer tool: run every harness file symbolically (parallel) and print every lemma line that is not ok
cd "$(dirname "$0")/.."
ls contracts/C*.py | grep -v _finding | xargs -P ${J:-10} -I{} sh -c 'python3-vt -m pyvc.run {} > /tmp/_lem_$(basename {}).out 2>&1; echo "$(basename {}) rc=$? lemmas=$(grep -c " ok " /tmp/_lem_$(basename {}).out) notok=$(grep -E "^[a-zA-Z_0-9]+ +(unsupported|error|refuted|undecided|timeout)" /tmp/_lem_$(basename {}).out | wc -l)"'
grep -hE "^[a-zA-Z_0-9]+ +(unsupported|error|refuted|undecided|timeout)|Traceback" /tmp/_lem_C*.out | cut -c1-300 | head -40
grep -hE "REFUTED|UNDECIDED" /tmp/_lem_C*.out | sed "s/\.path[0-9]* .*//" | sort | uniq -c | head -30
rm -f /tmp/_lem_C*.out
