#!/usr/bin/env python3
"""Emit the 'as built' per-property tables of DESIGN.md (lemmas, functions, bounded scripts, findings, seeded changes)."""
import ast, glob, json, os, sys
ROOT = os.path.dirname(os.path.dirname(os.path.abspath(__file__)))
props = [json.loads(l) for l in open(os.path.join(ROOT, "properties.jsonl")) if l.strip()]
cfg = json.load(open(os.path.join(ROOT, "contracts", "properties_cfg.json")))
known = json.load(open(os.path.join(ROOT, "known_findings.json")))
out = []
for p in props:
    pid = p["id"]
    out.append("### %s — %s\n" % (pid, p["title"]))
    out.append("*Claimed level:* **%s**. %s\n" % (cfg[pid]["level"], cfg[pid]["text"]))
    out.append("*Assumed / trusted:* %s\n" % cfg[pid]["note"])
    ev = os.path.join(ROOT, "evidence", pid + ".json")
    e = json.load(open(ev)) if os.path.exists(ev) else None
    lem = []
    for h in sorted(glob.glob(os.path.join(ROOT, "contracts", pid + "_*.py"))):
        t = ast.parse(open(h).read())
        for n in t.body:
            if isinstance(n, ast.FunctionDef) and any((getattr(d, "id", None) == "lemma") or (isinstance(d, ast.Call) and getattr(d.func, "id", None) == "lemma") for d in n.decorator_list):
                doc = ast.get_docstring(n) or ""
                lem.append((os.path.basename(h), n.name, doc.split("\n")[0]))
    if lem:
        out.append("Deductive tier (`contracts/`): %d lemmas%s\n" % (len(lem), (", %d obligations discharged (%s), solver %.1f s" % (e["coverage"]["discharged"], ", ".join("%s %d" % kv for kv in sorted(e["coverage"]["by_backend"].items())), e["coverage"]["solver_time_s"])) if e else ""))
        out.append("| lemma | states |\n|---|---|")
        for f, n, d in lem:
            out.append("| `%s:%s` | %s |" % (f, n, d.replace("|", "/") or n.replace("_", " ")))
        out.append("")
        if e:
            fs = sorted(k for k in e["coverage"]["functions_under_contract"] if k.startswith("armi"))
            out.append("armi functions executed symbolically (source re-read every run): " + ", ".join("`%s`" % f.split(":")[-1] for f in fs) + "\n")
    else:
        out.append("Deductive tier: none for this property (reason in the level note above).\n")
    if e and e["coverage"]["bounded"]:
        out.append("Bounded tier (`bounded/`):\n")
        for b in e["coverage"]["bounded"]:
            out.append("* `%s` — %s evaluations / %s distinct (quick); bound: %s%s" % (b["script"], b["evaluations"], b["distinct_nontrivial"], b.get("bound", ""), "; **exhaustive**" if b.get("exhaustive") else ""))
        out.append("")
    fx = [k for k in known if k["property"] == pid and k["status"] == "fixed"]
    kn = [k for k in known if k["property"] == pid and k["status"] == "known"]
    if fx:
        out.append("Repaired defects (`fix:` commits in /repo):\n")
        for k in fx:
            out.append("* %s — %s" % (k["id"], k["what"].split(" ", 3)[-1] if k["what"].startswith("fixed:") else k["what"]))
        out.append("")
    if kn:
        out.append("Known findings (%d; full list with reproductions in `known_findings.json`): " % len(kn) + "; ".join("%s `%s`" % (k["id"], (k["match"] if isinstance(k["match"], str) else k["match"][0]).split()[-1]) for k in kn) + "\n")
    seeds = sorted(glob.glob(os.path.join(ROOT, "seeded", pid + "-*", "meta.json")))
    if seeds:
        out.append("Seeded changes (all confirmed: demo passes without / fails with the patch, 881 stable tests still pass):\n")
        out.append("| seeded change | needs to manifest | caught by |\n|---|---|---|")
        for s in seeds:
            m = json.load(open(s))
            ids = m.get("obligations_or_ids_that_fired", [])
            out.append("| `%s` | %s | %s |" % (os.path.basename(os.path.dirname(s)), str(m.get("needs_to_manifest", ""))[:220].replace("|", "/").replace("\n", " "), ("exit 1: " + ", ".join("`%s`" % i for i in ids[:4])) if m.get("detected") else "**missed** (exit %s)" % m.get("check_exit_code")))
        out.append("")
print("\n".join(out))
