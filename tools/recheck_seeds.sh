#!/bin/bash
# usage: tools/recheck_seeds.sh <property>     re-runs `./check <property>` (quick) against every kept seeded change of that
# property, one after the other, each in a scratch worktree of /repo HEAD with the patch applied (ARMI_REPO=<worktree>; /repo is
# never touched).  Lighter than eval_seed_wt.sh: demo and test-suite baseline were confirmed when the seed was adopted and the
# patch has not changed.  Updates check_exit_code / detected / ids in meta.json; prints one line per seed.
VERIF=$(cd "$(dirname "$0")/.." && pwd); P=$1
for D in "$VERIF"/seeded/*/; do
  D=${D%/}
  Q=$(python3 -c "import json;m=json.load(open('$D/meta.json'));print(m.get('breaks_property') or m['property'], 'obsolete' if m.get('obsolete') else '')")
  [ "${Q%% *}" = "$P" ] || continue
  case "$Q" in *obsolete) echo "$(basename $D): obsolete - skipped"; continue;; esac
  WT=$(mktemp -d /tmp/recheckwt.XXXXXX); rmdir "$WT"
  git -C /repo worktree add --detach "$WT" HEAD -q || { echo "$(basename $D): worktree failed"; continue; }
  if git -C "$WT" apply "$D/patch.diff"; then
    (cd "$VERIF" && ARMI_REPO="$WT" ./check "$P" > /tmp/recheck_$$.log 2>&1); RC=$?
    python3 - "$D/meta.json" "$RC" /tmp/recheck_$$.log <<'PY'
import json,sys,re
dst,rc,logf=sys.argv[1:4]
m=json.load(open(dst)); log=open(logf).read()
viol=sorted(set(re.findall(r"replay=\S*/replay/[A-Z0-9]+/(\S+?)\.json", log)))
m.update({"check_exit_code":int(rc),"detected":int(rc)==1,"obligations_or_ids_that_fired":viol[:40],
 "undecided_or_errors":[l[:200] for l in log.splitlines() if l.startswith(("UNDECIDED","ERROR"))][:5],
 "rechecked":"tools/recheck_seeds.sh on the final engine and the repaired tree"})
json.dump(m,open(dst,'w'),indent=1)
PY
    echo "$(basename $D): check $P rc=$RC"
  else echo "$(basename $D): PATCH DOES NOT APPLY"; fi
  git -C /repo worktree remove --force "$WT" >/dev/null 2>&1; rm -f /tmp/recheck_$$.log
done
