#!/usr/bin/env python3
"""Regenerate MANIFEST.json from contracts/properties_cfg.json (claimed properties) + properties.jsonl."""
import json, os
ROOT = os.path.dirname(os.path.dirname(os.path.abspath(__file__)))
cfg = json.load(open(os.path.join(ROOT, "contracts", "properties_cfg.json")))
ids = [json.loads(l)["id"] for l in open(os.path.join(ROOT, "properties.jsonl")) if l.strip()]
hooks = json.load(open(os.path.join(ROOT, "contracts", "hooks.json"))) if os.path.exists(os.path.join(ROOT, "contracts", "hooks.json")) else {"source_commits": []}
checks, na = [], []
for pid in ids:
    c = cfg.get(pid)
    if not c or not c.get("claimed", True):
        na.append({"property_id": pid, "reason": (c or {}).get("na_reason", "not implemented yet in this session; design in DESIGN.md section 4")})
        continue
    checks.append({
        "property_id": pid,
        "quick_cmd": "./check %s --tier quick" % pid,
        "thorough_cmd": "./check %s --tier thorough" % pid,
        "evidence_file": "/verif/evidence/%s.json" % pid,
        "replay_cmd_template": "./check --replay {path}",
        "engine": "pyvc",
        "level_claimed": {"category": c["level"], "text": c["text"], "design_ref": "DESIGN.md section 4 (%s)" % pid},
        "level_note": c["note"],
        "technique": c["technique"],
    })
m = {
    "version": 1,
    "setup_cmd": "./setup.sh",
    "hooks": {"guard": "ARMI_VERIF", "enable": "no source hooks: contracts are sidecar files under /verif/contracts; checks export ARMI_VERIF=1 for uniformity",
              "baseline_off_cmd": "cd /repo && /venv/bin/python -m pytest -ra -q -p no:cacheprovider --timeout=900 --continue-on-collection-errors",
              "source_commits": hooks["source_commits"], "add_only": True},
    "engines": [{"name": "pyvc", "path": "/verif/pyvc", "serves_properties": [c["property_id"] for c in checks],
                 "kind_free_text": "ast->SMT symbolic executor / VC generator over the real source text of /repo; z3 5.1 (python API) with cvc5 1.0.3 as second back end; harness lemmas = contracts; native replay on the real armi"}],
    "checks": checks,
    "not_applicable": na,
    "notes": "Contract-based deductive verification (DESIGN.md). Exit codes: 0 held, 1 VIOLATION, 2 undecided, 3 checker error.",
}
json.dump(m, open(os.path.join(ROOT, "MANIFEST.json"), "w"), indent=1)
print("claimed", len(checks), "not_applicable", len(na))
