#!/usr/bin/env python3
"""Developer tool (never run by ./check): run the bounded scripts, list violation ids that no known_findings.json
entry matches, and (with --add) append auto-drafted `known` entries for review."""
import json, glob, os, subprocess, sys, concurrent.futures as cf
ROOT = os.path.dirname(os.path.dirname(os.path.abspath(__file__)))
tier = "thorough" if "--thorough" in sys.argv else "quick"
only = [a for a in sys.argv[1:] if a.startswith("C")]
seed = [a.split("=")[1] for a in sys.argv[1:] if a.startswith("--seed=")]
seed = seed[0] if seed else "0"
known = json.load(open(os.path.join(ROOT, "known_findings.json")))
def matched(pid, ident):
    for k in known:
        if k["status"] != "known" or k["property"] != pid: continue
        ms = k["match"] if isinstance(k["match"], list) else [k["match"]]
        if k.get("exact"):
            if any(ident == m for m in ms): return True
        elif any(m in ident for m in ms): return True
    return False
def run(f):
    env = dict(os.environ, PYTHONPATH="/repo:%s/contracts" % ROOT)
    p = subprocess.run(["/venv/bin/python", f, "--tier", tier, "--seed", seed], capture_output=True, text=True, env=env, cwd=ROOT)
    line = [l for l in p.stdout.splitlines() if l.startswith("{")]
    return f, (json.loads(line[-1]) if line else None)
files = sorted(glob.glob(os.path.join(ROOT, "bounded", "C*.py")))
if only: files = [f for f in files if os.path.basename(f)[:3] in only]
new = []
with cf.ThreadPoolExecutor(12) as ex:
    for f, d in ex.map(run, files):
        n = os.path.basename(f); pid = n[:3]
        if d is None: print("NO OUTPUT", n); continue
        seen = {}
        for v in d["violations"]: seen.setdefault(v["id"], v)
        for vid, v in seen.items():
            ident = "%s %s" % (n, vid)
            if not matched(pid, ident):
                new.append((pid, n, vid, v))
                print("UNMATCHED", pid, n, vid)
if "--add" in sys.argv:
    num = max([int(k["id"][1:]) for k in known if k["id"][1:].isdigit()] + [0])
    for pid, n, vid, v in new:
        num += 1
        known.append({"id": "F%d" % num, "property": pid, "status": "known", "exact": True, "match": "%s %s" % (n, vid),
                      "what": "F%d [%s] %s" % (num, vid, str(v.get("what"))[:260]),
                      "repro": "bounded/%s --replay: %s" % (n, json.dumps(v.get("input"), default=str)[:400])})
    json.dump(known, open(os.path.join(ROOT, "known_findings.json"), "w"), indent=1)
    print("added", len(new))
