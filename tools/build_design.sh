#!/bin/sh
# regenerate DESIGN.md = tools/design/head.md + generated per-property tables + tools/design/tail.md
cd "$(dirname "$0")/.."
python3 tools/gen_design_tables.py > /tmp/_design_tables.$$ && cat tools/design/head.md /tmp/_design_tables.$$ tools/design/tail.md > DESIGN.md
rm -f /tmp/_design_tables.$$
wc -l DESIGN.md
