#!/usr/bin/env python3
"""usage: check_baseline.py <worktree>   -- runs the repository's test suite on the worktree and reports whether every
test of the stable baseline (881 tests) still passes.  Exit 0 = all stable tests pass."""
import json, os, subprocess, sys, tempfile, xml.etree.ElementTree as ET
wt = os.path.abspath(sys.argv[1])
stable = set(json.load(open('/root/.vp/BASELINE.json'))['stable_pass'])
with tempfile.TemporaryDirectory() as d:
    x = os.path.join(d, 'r.xml')
    env = dict(os.environ, PYTHONPATH=wt, PYTHONDONTWRITEBYTECODE='1')
    subprocess.run(['/venv/bin/python', '-m', 'pytest', '-q', '-p', 'no:cacheprovider', '--timeout=900',
                    '--continue-on-collection-errors', '--junitxml=' + x], cwd=wt, env=env,
                   stdout=subprocess.DEVNULL, stderr=subprocess.DEVNULL)
    res = {}
    for tc in ET.parse(x).iter('testcase'):
        name = "%s::%s" % (tc.get('classname'), tc.get('name'))
        bad = any(c.tag in ('failure', 'error', 'skipped') for c in tc)
        res[name] = not bad
bad = sorted(s for s in stable if not res.get(s, False))
print("stable tests: %d, now failing/missing: %d" % (len(stable), len(bad)))
for b in bad[:30]: print("  ", b)
sys.exit(1 if bad else 0)
