#!/bin/sh
# usage: tools/mutant.sh <file-relative-to-repo> <sed-expr> <property> [lemma-filter...]
# applies one sed edit to a scratch copy of /repo (outside /repo and /verif), runs the deductive tier of ./check there
set -e
VERIF=$(cd "$(dirname "$0")/.." && pwd)
cd "$VERIF"
SC=$(mktemp -d /tmp/pyvc_mut.XXXXXX)
trap 'rm -rf "$SC"' EXIT
rsync -a --include='*/' --include='*.py' --include='*.yaml' --include='*.dat' --exclude='*' /repo/armi "$SC"/
sed -i "$2" "$SC/$1"
if diff -q "/repo/$1" "$SC/$1" >/dev/null; then echo "MUTANT DID NOT APPLY"; exit 9; fi
diff "/repo/$1" "$SC/$1" | head -6
shift; shift
pid=$1; shift
for h in $VERIF/contracts/${pid}_*.py; do
  ARMI_REPO=$SC python3-vt -m pyvc.run "$h" ${1:+--only "$@"} | grep -v " ok .* [0-9]*/[0-9]* " | grep -B1 -A0 "REFUTED\|UNDECIDED\|unsupported\|error" | head -12 || true
done
