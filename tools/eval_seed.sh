#!/bin/bash
# usage: tools/eval_seed.sh <dir with patch.diff demo.py meta.json> [property]
# 1. confirms in a scratch worktree: demo passes without the patch, fails with it, stable baseline still passes
# 2. applies the patch to /repo, runs ./check <property> (quick), undoes the patch
set -u
D=$(realpath "$1"); P=${2:-$(python3 -c "import json,sys;print(json.load(open('$D/meta.json'))['property'])")}
WT=$(mktemp -d /tmp/evalseed.XXXXXX); rmdir "$WT"
git -C /repo worktree add --detach "$WT" HEAD -q || exit 9
trap 'git -C /repo worktree remove --force "$WT" >/dev/null 2>&1; git -C /repo checkout -- . ' EXIT
run_demo() { (cd "$WT" && PYTHONPATH="$WT" timeout 900 /venv/bin/python "$D/demo.py" >/tmp/evalseed_demo.log 2>&1; echo $?); }
W0=$(run_demo)
git -C "$WT" apply "$D/patch.diff" || { echo "PATCH DOES NOT APPLY"; exit 8; }
W1=$(run_demo)
BL=$(python3 /tmp/seedtools/check_baseline.py "$WT" | head -1)
echo "demo without patch rc=$W0 ; with patch rc=$W1 ; baseline: $BL"
git -C /repo apply "$D/patch.diff" || { echo "PATCH DOES NOT APPLY TO /repo"; exit 8; }
cd /verif && ./check "$P" > /tmp/evalseed_check.log 2>&1; RC=$?
git -C /repo checkout -- .
echo "check $P rc=$RC"; grep -E "^VIOLATION|^UNDECIDED|^ERROR" /tmp/evalseed_check.log | cut -c1-200 | head -8
SLUG=$(basename "$D"); OUT=/verif/seeded/$P-$SLUG; mkdir -p "$OUT"; cp "$D/patch.diff" "$D/demo.py" "$OUT/"
python3 - "$D/meta.json" "$OUT/meta.json" "$P" "$W0" "$W1" "$BL" "$RC" <<'PY'
import json,sys,re
src,dst,P,w0,w1,bl,rc=sys.argv[1:8]
m=json.load(open(src))
log=open('/tmp/evalseed_check.log').read()
viol=sorted(set(re.findall(r"replay=/verif/replay/[A-Z0-9]+/(\S+?)\.json", log)))
m.update({"breaks_property":P,"confirmed":{"demo_without_patch_rc":int(w0),"demo_with_patch_rc":int(w1),"stable_baseline_with_patch":bl},
 "ran":"tools/eval_seed.sh: scratch worktree (demo with/without, full test suite vs 881 stable tests); then git apply on /repo, ./check %s --tier quick, git checkout -- ."%P,
 "check_exit_code":int(rc),"detected":int(rc)==1,"obligations_or_ids_that_fired":viol[:25]})
json.dump(m,open(dst,'w'),indent=1)
PY
