"""Self-test of the engine's model of list.sort / sorted over objects compared by __lt__ (pyvc/attrs.py sort_objects).

`ref_sort` is CPython's algorithm for fewer than 64 elements (count_run + binary insertion) written out in plain Python
over an ARBITRARY (also inconsistent) comparison table.  Run natively, the lemma compares CPython's real sort with
ref_sort (random tables, n <= 4); run symbolically, it compares the engine's model with ref_sort for ALL 2^12 tables.
Both green => the engine model makes exactly CPython's comparisons on these sizes.

  cp tools/selftest/sort_model.py contracts/T00_sort.py
  python3-vt -m pyvc.run contracts/T00_sort.py
  PYTHONPATH=/repo:contracts /venv/bin/python contracts/native_runner.py cross contracts/T00_sort.py --n 3000
  rm contracts/T00_sort.py
"""
from spec import *


class Obj:
    def __lt__(self, other):
        return self.row[other.ident]


def ref_sort(n, T):
    idx = list(range(n))
    if n < 2:
        return idx
    desc = T[idx[1]][idx[0]]
    k = 2
    while k < n:
        r = T[idx[k]][idx[k - 1]]
        if r != desc:
            break
        k += 1
    if desc:
        idx = idx[:k][::-1] + idx[k:]
    start = k
    while start < n:
        pivot = idx[start]
        l, r = 0, start
        while l < r:
            p = l + ((r - l) >> 1)
            if T[pivot][idx[p]]:
                r = p
            else:
                l = p + 1
        idx = idx[:l] + [pivot] + idx[l:start] + idx[start + 1:]
        start += 1
    return idx


@lemma(gen={"n": (0, 4)})
def sort_model_is_cpython(n: int, a1: bool, a2: bool, a3: bool, b0: bool, b2: bool, b3: bool, c0: bool, c1: bool, c3: bool, d0: bool, d1: bool, d2: bool):
    n = choose(n, 0, 4)
    T = [[False, a1, a2, a3], [b0, False, b2, b3], [c0, c1, False, c3], [d0, d1, d2, False]]
    objs = [new(Obj, ident=i, row=T[i]) for i in range(n)]
    L = list(objs)
    L.sort()
    exp = ref_sort(n, T)
    assert len(L) == n
    for i in range(n):
        assert same(L[i], objs[exp[i]])
    S = sorted(objs)
    for i in range(n):
        assert same(S[i], objs[exp[i]])
