"""Self-test of scoping, evaluation order and laziness against CPython: mutable parameter defaults are ONE object shared across
calls, comprehension variables do not leak, closures bind late (nested def / lambda see later rebindings, `lambda i=i`
captures early), generator expressions evaluate their first iterable at once, chained comparisons short-circuit
(`2 < 1 < l[5]` does not raise) and evaluate each operand once, chained assignment assigns left to right, starred
unpacking, sum() start values, zip / enumerate / reversed.

  cp tools/selftest/scoping_and_laziness.py contracts/T00_scope.py
  python3-vt -m pyvc.run contracts/T00_scope.py
  PYTHONPATH=/repo:contracts /venv/bin/python contracts/native_runner.py cross contracts/T00_scope.py --n 20
  rm contracts/T00_scope.py
"""
import copy

from spec import *


class Box:
    pass


def _none_default(x, acc=None):
    if acc is None:
        acc = []
    acc.append(x)
    return acc


def _note(log, v):
    log.append(v)
    return v


@lemma
def mutable_default_is_shared_across_calls(n: int):
    def _acc(x, acc=[]):  # defined per run: the default list is created once per definition
        acc.append(x)
        return acc

    def _accd(k, d={}):
        d[k] = len(d)
        return d

    a = _acc(n)
    b = _acc(2)
    assert a is b and b == [n, 2]
    assert len(_accd("x")) == 1 and len(_accd("y")) == 2


@lemma
def none_default_idiom(n: int):
    a = _none_default(n)
    b = _none_default(2)
    assert a == [n] and b == [2] and a is not b


@lemma
def comprehension_variable_does_not_leak(n: int):
    x = n
    l = [x for x in range(3)]
    assert x == n and l == [0, 1, 2]
    k = "k"
    d = {k: v for k, v in [("a", 1)]}
    assert k == "k" and d == {"a": 1}
    s = sum(x * x for x in (1, 2))
    assert x == n and s == 5


@lemma
def nested_def_sees_later_rebinding(n: int):
    total = 0

    def get():
        return total

    total = n
    assert get() == n
    acc = []

    def push(v):
        acc.append(v)

    push(n)
    assert acc == [n]


@lemma
def zip_shortest_enumerate_start(n: int):
    assert list(zip([1, 2, 3], "ab")) == [(1, "a"), (2, "b")]
    assert list(enumerate("ab", 5)) == [(5, "a"), (6, "b")]
    assert list(enumerate("ab", start=n)) == [(n, "a"), (n + 1, "b")]
    assert dict(zip("ab", [1, 2])) == {"a": 1, "b": 2}
    assert list(reversed((1, 2, 3))) == [3, 2, 1]
    assert list(reversed(range(3))) == [2, 1, 0]


@lemma
def sum_start_value(n: int):
    assert sum([1, 2], 10) == 13
    assert sum([], n) == n
    assert sum([[1], [2]], []) == [1, 2]
    assert sum([0.5, 0.5]) == 1
    assert sum((1, 2), start=n) == n + 3
    r = 0
    try:
        sum(["a", "b"])
    except TypeError:
        r = 1
    assert r == 1


@lemma
def chained_comparison_short_circuits(n: int):
    l = [1]
    assert not (2 < 1 < l[5])
    assert not (2 < 1 < 1 // 0)
    log = []
    r = _note(log, 1) < _note(log, 0) < _note(log, 5)
    assert not r and log == [1, 0]
    assert 1 < 2 < 3 and not (1 < 3 < 2) and (1 == 1.0 == True)
    assert (1 < 2) == True
    assert not (1 < 2 == True), "chained: 1 < 2 and 2 == True"


@lemma
def chained_assignment_and_order(n: int):
    a = b = [n]
    assert a is b
    l = [0, 0, 0]
    i = 0
    i = l[i] = 2
    # targets left to right: i = 2 first, then l[2] = 2
    assert i == 2 and l == [0, 0, 2]
    x, y = 1, 2
    x, y = y, x
    assert (x, y) == (2, 1)
    l2 = [1, 2, 3]
    j = 0
    j, l2[j] = 1, 9
    assert j == 1 and l2 == [1, 9, 3]


@lemma
def starred_unpacking(n: int):
    a, *b = [1, 2, n]
    assert a == 1 and b == [2, n]
    *c, d = (1, 2, 3)
    assert c == [1, 2] and d == 3
    e, *f, g = "ab"
    assert e == "a" and f == [] and g == "b"
    h, *i = [5]
    assert h == 5 and i == []
    r = 0
    try:
        p, q, *s = [1]
    except ValueError:
        r = 1
    assert r == 1
    try:
        p, q = [1, 2, 3]
    except ValueError:
        r = 2
    assert r == 2
    (u, v), w = (1, 2), 3
    assert u == 1 and v == 2 and w == 3
    k1, k2 = {"x": 1, "y": 2}
    assert k1 == "x" and k2 == "y"
    t = (*[1, 2], 3, *"ab")
    assert t == (1, 2, 3, "a", "b")


@lemma
def copy_vs_deepcopy(n: int):
    inner = [n]
    outer = [inner, inner]
    c = copy.copy(outer)
    assert c is not outer and c[0] is inner and c == outer
    d = copy.deepcopy(outer)
    assert d is not outer and d[0] is not inner and d[0] == inner
    assert d[0] is d[1], "deepcopy preserves shared substructure"
    d[0].append(1)
    assert inner == [n] and d[1] == [n, 1]
    cyc = [1]
    cyc.append(cyc)
    e = copy.deepcopy(cyc)
    assert e[1] is e and e is not cyc
    dd = {"k": inner}
    ee = copy.copy(dd)
    assert ee["k"] is inner and ee is not dd
    t = (inner, 1)
    tt = copy.deepcopy(t)
    assert tt[0] is not inner and tt[0] == inner
    ti = (1, 2)
    assert copy.copy(ti) is ti and copy.deepcopy(ti) is ti
    b = new(Box, a=inner)
    bc = copy.copy(b)
    assert bc is not b and bc.a is inner
    bd = copy.deepcopy(b)
    assert bd.a is not inner and bd.a == inner
    s = {1, 2}
    sc = copy.copy(s)
    sc.add(3)
    assert len(s) == 2
    assert list(outer)[0] is inner and outer[:] is not outer and outer[:][0] is inner


def _gen_that_raises(flag, xs):
    if flag:
        raise RuntimeError("refused")
    yield from xs


def _stored_then_listed(flag, xs):
    items = _gen_that_raises(flag, xs)
    return list(items)


@lemma
def generator_function_raises_when_consumed_not_when_called(flag: bool, n: int):
    raised = False
    got = None
    try:
        got = _stored_then_listed(flag, [1, n])
    except RuntimeError:
        raised = True
    assert raised == flag and implies(not flag, got == [1, n])
    g = _gen_that_raises(True, [])
    where = 0
    try:
        where = 1
        l = list(g)
        where = 2
    except RuntimeError:
        pass
    assert where == 1, "calling the generator function runs nothing; the exception comes out of list()"


@lemma
def del_name_and_rebinding(n: int):
    # (moved here from refused_constructs.py: an unbound local is UnboundLocalError, a NameError, since the audit-B merge)
    x = [n]
    y = x
    del x
    assert y == [n]
    r = 0
    try:
        z = x
    except NameError:
        r = 1
    assert r == 1
