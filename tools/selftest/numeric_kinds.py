"""Self-test of scalar numeric semantics: NaN and infinity in comparisons, floor / ceil / int / round / // / % on negative
numbers, and the int-versus-float TYPE of results (values of different kinds must not be merged into one real term).

  cp tools/selftest/numeric_kinds.py contracts/T00_numeric_kinds.py
  python3-vt -m pyvc.run contracts/T00_numeric_kinds.py
  PYTHONPATH=/repo:contracts /venv/bin/python contracts/native_runner.py cross contracts/T00_numeric_kinds.py --n 30
  rm contracts/T00_numeric_kinds.py
"""
import copy
import math

import numpy as np

from spec import *


@lemma
def nan_scalars(x: float):
    assert np.nan != np.nan
    assert not (np.nan == np.nan)
    nn = float("nan")
    assert nn != nn
    assert not (nn < 1.0) and not (nn > 1.0) and not (nn <= nn)
    assert not (x < nn) and not (x == nn) and x != nn
    assert math.isnan(nn) and not math.isnan(x)
    assert math.isnan(np.nan) and np.isnan(nn)


@lemma
def np_inf_compare(x: float):
    ok = x < np.inf
    assert ok
    assert x < math.inf
    assert np.inf == float("inf") and math.inf == float("inf")
    assert -x > -np.inf


@lemma
def math_nan(x: float):
    assert math.isnan(math.nan)
    assert not (math.nan == math.nan)


@lemma
def floor_ceil_trunc(x: float):
    assert math.floor(-1.5) == -2 and math.ceil(-1.5) == -1 and int(-1.5) == -1
    assert math.floor(1.5) == 1 and math.ceil(1.5) == 2
    assert isinstance(math.floor(x), int) and isinstance(math.ceil(x), int)
    assert math.floor(x) <= x and x < math.floor(x) + 1
    assert math.ceil(x) >= x and x > math.ceil(x) - 1
    assert abs(int(x)) <= abs(x) and abs(x) < abs(int(x)) + 1 and (int(x) >= 0) == (x > -1)
    assert (-7) // 2 == -4 and (-7) % 2 == 1 and 7 // -2 == -4 and 7 % -2 == -1
    assert divmod(-7, 2) == (-4, 1)
    assert -7.5 // 2 == -4.0 and eq(-7.5 % 2, 0.5) and eq(7.5 % -2, -0.5)
    assert round(0.5) == 0 and round(1.5) == 2 and round(2.5) == 2 and round(-0.5) == 0 and round(-1.5) == -2
    assert isinstance(round(x), int) and isinstance(round(x, 1), float)


@lemma
def sqrt_symbolic_negative(x: float):
    assume(x < 0)
    ok = False
    try:
        math.sqrt(x)
    except ValueError:
        ok = True
    assert ok


@lemma
def int_of_things(n: int):
    assert int(True) == 1 and int("12") == 12 and int(3.99) == 3 and int(-3.99) == -3
    assert int(n) == n
    assert float(n) == n
    assert isinstance(n / 1, float)
    assert isinstance(n // 1, int)
    assert isinstance(n * 1.0, float) and isinstance(n + 0.0, float)
    assert 7 / 2 == 3.5
    assert isinstance(True + True, int) and True + True == 2
    assert 1 == 1.0
    assert isinstance(abs(-n), int)
    assert isinstance(max(1, 2.0), float) and isinstance(max(2, 1.0), int)
    assert isinstance(sum([1, 2]), int) and isinstance(sum([1, 2.0]), float) and isinstance(sum([]), int)
    assert isinstance(min(n, 0.5), float) == (n > 0.5)


@lemma
def merged_ifexp_kind(b: bool, n: int):
    r = 1 if b else 2.5
    assert isinstance(r, float) == (not b)


@lemma
def merged_minmax_kind(n: int):
    r = max(0, n - 0.5)
    assert isinstance(r, int) == (n <= 0)


@lemma
def merged_or_kind(n: int, x: float):
    r = n or x
    assert isinstance(r, int) == (n != 0)


@lemma
def floordiv_of_merged(b: bool):
    r = 7 if b else 7.0
    q = r // 2
    assert isinstance(q, int) == b
    d = r / 2
    assert isinstance(d, float)


@lemma
def abs_kind(n: int):
    assert isinstance(abs(n), int) and isinstance(abs(n * 1.0), float)
    r = round(n * 1.0)
    assert isinstance(r, int)
    r1 = round(n * 1.0, 1)
    assert isinstance(r1, float)
    r2 = round(n, 1)
    assert isinstance(r2, int)
    r3 = round(n, -1)
    assert isinstance(r3, int) and implies(n == 15, r3 == 20) and implies(n == 25, r3 == 20) and implies(n == -15, r3 == -20)


@lemma(gen={"a": (-20, 20), "b": (-6, 6)})
def int_floordiv_mod_symbolic(a: int, b: int):
    assume(b != 0)
    q = a // b
    r = a % b
    assert q * b + r == a
    assert implies(b > 0, 0 <= r and r < b) and implies(b < 0, b < r and r <= 0)
    assert divmod(a, b) == (q, r)
    assert isinstance(q, int) and isinstance(a / b, float)
    assert implies(a == -7 and b == 2, q == -4 and r == 1)
    assert implies(a == 7 and b == -2, q == -4 and r == -1)


@lemma(gen={"x": (-20, 20), "y": (-6, 6)})
def float_floordiv_mod_symbolic(x: float, y: float):
    assume(y > 0.5 or y < -0.5)
    q = x // y
    r = x % y
    assert isinstance(q, float) and isinstance(r, float)
    assert eq(q * y + r, x)
    assert implies(y > 0, 0 <= r and r <= y) and implies(y < 0, y <= r and r <= 0)
    assert q == math.floor(x / y) or NATIVE


@lemma(gen={"x": (-20, 20)})
def mixed_floordiv(x: float, n: int):
    assume(n != 0)
    q = x // n
    assert isinstance(q, float)
    q2 = n // 2.0
    assert isinstance(q2, float)
    assert isinstance(n // 2, int)
    assert isinstance(-n, int) and isinstance(+x, float)
    assert isinstance(n ** 2, int) and isinstance(x ** 2, float) and isinstance(n ** 2.0, float)
    assert isinstance(abs(x), float)
    assert int(x) == math.floor(x) or x < 0
    assert int(-2.5) == -2 and int(2.5) == 2
