"""Self-test of the engine's model of the special-method protocols (pyvc/models.py compare / obj_binop / contains,
pyvc/symex.py truth, pyvc/loops.py exec_with, values.IterE): __eq__ / __ne__ / __hash__ (a class with __eq__ only is unhashable,
equal keys collapse in a dict), reflected operators with NotImplemented and subclass priority, a > b falling back to b < a,
__iadd__, __bool__ before __len__, `in` through __contains__ / __iter__, ONE-SHOT iterators (iter, enumerate, map, zip,
reversed; a loop left by break keeps the rest), stable sorting by __lt__ / key / reverse, __str__, __call__, str.format,
context managers (suppression by __exit__, return / break / continue inside with, nested managers), functools.total_ordering.

Each lemma states what CPython does (green natively = the statement is true of CPython) and is then run symbolically
(green = the engine's model agrees).  Negated statements (`is not`, `raises(...)`) refute plausible wrong models.

  cp tools/selftest/dunder_protocols.py contracts/T00_dunder_protocols.py
  python3-vt -m pyvc.run contracts/T00_dunder_protocols.py
  PYTHONPATH=/repo:contracts /venv/bin/python contracts/native_runner.py cross contracts/T00_dunder_protocols.py --n 20
  rm contracts/T00_dunder_protocols.py
"""
import functools

from spec import *


def raises(fn, exc):
    try:
        fn()
    except exc:
        return True
    except Exception:
        return False
    return False


class EqOnly:
    def __init__(self, v):
        self.v = v

    def __eq__(self, o):
        return isinstance(o, EqOnly) and self.v == o.v


class EqHash(EqOnly):
    def __hash__(self):
        return 7


class Plain:
    pass


@lemma
def eq_ne_hash(x: int):
    a, b = EqOnly(x), EqOnly(x)
    assert a == b and not (a != b), "__ne__ defaults to the inverse of __eq__"
    assert a != EqOnly(x + 1)
    assert a is not b
    assert raises(lambda: hash(a), TypeError), "__eq__ without __hash__ makes the class unhashable"
    p, q = Plain(), Plain()
    assert p != q and p == p and not (p == q), "default equality is identity"
    assert hash(p) == hash(p)
    d = {p: 1}
    d[q] = 2
    assert len(d) == 2 and d[p] == 1
    h1, h2 = EqHash(x), EqHash(x)
    d = {h1: "first"}
    d[h2] = "second"
    assert len(d) == 1 and d[h1] == "second", "equal keys collapse, the first key object is kept"
    assert list(d)[0] is h1
    assert h2 in [h1], "list membership uses =="
    assert p in [p] and q not in [p]


@lemma
def sets_of_objects_with_user_eq(x: int):
    h1, h3 = EqHash(x), EqHash(x + 1)
    s = {h1, h3}
    s.add(h1)
    assert len(s) == 2 and h1 in s and EqHash(x + 2) not in s, "unequal elements stay apart whatever their hashes are"
    t = s | {h3}
    assert len(t) == 2


class NeOwn:
    def __eq__(self, o):
        return True

    def __ne__(self, o):
        return True


@lemma
def user_defined_ne_is_called(x: int):
    assert NeOwn() == NeOwn() and NeOwn() != NeOwn(), "!= calls __ne__, it is not `not ==` when __ne__ is defined"

class Num:
    def __init__(self, v):
        self.v = v

    def __add__(self, o):
        if isinstance(o, Num):
            return Num(self.v + o.v)
        return NotImplemented

    def __radd__(self, o):
        return ("radd", o, self.v)

    def __lt__(self, o):
        if isinstance(o, Num):
            return self.v < o.v
        return NotImplemented

    def __iadd__(self, o):
        self.v += 100
        return self


class SubNum(Num):
    def __radd__(self, o):
        return "sub-radd"

    def __gt__(self, o):
        return "sub-gt"


@lemma
def reflected_operators_and_notimplemented(x: int):
    n = Num(x)
    assert (n + Num(1)).v == x + 1
    assert 5 + n == ("radd", 5, x)
    assert raises(lambda: n + 5, TypeError)
    assert Num(1) + SubNum(2) == "sub-radd"
    assert raises(lambda: n < 3, TypeError)
    assert (Num(3) > Num(2)) is True
    assert raises(lambda: Num(3) >= Num(2), TypeError)
    m = n
    m += Num(1)
    assert m is n and n.v == x + 100


class Truthy:
    def __init__(self, n, b=None):
        self.n = n
        self.b = b

    def __len__(self):
        return self.n


class Truthy2(Truthy):
    def __bool__(self):
        return self.b


@lemma
def truthiness(x: int):
    assert not Truthy(0) and Truthy(2) and bool(Plain())
    assert Truthy2(0, True) and not Truthy2(5, False), "__bool__ wins over __len__"
    assert (Truthy(0) or "alt") == "alt"
    t = Truthy(3)
    assert (t and 5) == 5 and (t or 5) is t
    assert len(Truthy(4)) == 4
    assert not [] and not {} and not () and not "" and not 0.0 and [0] and (None,) and " "
    assume(x != 0)
    assert (x and 7) == 7 and (x or 7) == x


class ContIter:
    def __init__(self, items):
        self.items = items
        self.log = []

    def __iter__(self):
        self.log.append("iter")
        return iter(self.items)


class ContContains(ContIter):
    def __contains__(self, v):
        self.log.append("contains")
        return "yes"


@lemma
def containment_protocols(x: int):
    c = ContIter([1, x])
    assert x in c and c.log == ["iter"], "in falls back to __iter__"
    k = ContContains([1])
    assert (5 in k) is True and k.log == ["contains"], "__contains__ result is converted to bool"
    assert (5 not in k) is False


@lemma
def iterators_are_one_shot(x: int):
    li = iter([1, 2, 3])
    assert next(li) == 1 and list(li) == [2, 3], "an iterator resumes where it is"
    assert next(li, "d") == "d"
    assert raises(lambda: next(li), StopIteration)
    assert iter(li) is li
    e = enumerate([5, 6], 1)
    assert next(e) == (1, 5) and list(e) == [(2, 6)]
    m = map(lambda q: q + x, [1, 2])
    assert next(m) == 1 + x and list(m) == [2 + x]
    r = reversed([1, 2, 3])
    assert next(r) == 3
    z = zip([1, 2], [3, 4])
    for pair in z:
        break
    assert pair == (1, 3) and next(z) == (2, 4), "a loop left by break leaves the rest in the iterator"
    assert raises(lambda: len(iter([1])), TypeError)
    assert raises(lambda: next([1]), TypeError), "a list is not an iterator"


class LtOnly:
    def __init__(self, k, tag):
        self.k = k
        self.tag = tag

    def __lt__(self, o):
        return self.k < o.k


@lemma
def sorting_is_stable(x: int):
    a, b, c = LtOnly(1, "a"), LtOnly(0, "b"), LtOnly(1, "c")
    s = sorted([a, b, c])
    assert [o.tag for o in s] == ["b", "a", "c"], "stable, by __lt__ only"
    s = sorted([(1, "z"), (0, "y"), (1, "a")], key=lambda t: t[0])
    assert s == [(0, "y"), (1, "z"), (1, "a")]
    s = sorted([(1, "z"), (0, "y"), (1, "a")], key=lambda t: t[0], reverse=True)
    assert s == [(1, "z"), (1, "a"), (0, "y")]
    l = [3, 1, 2]
    assert sorted(l, reverse=True) == [3, 2, 1] and l == [3, 1, 2]
    assert l.sort() is None and l == [1, 2, 3]
    assert max([], default=x) == x
    assert raises(lambda: max([]), ValueError)


class Fmt:
    def __repr__(self):
        return "R"

    def __str__(self):
        return "S"


class Callme:
    def __call__(self, a, b=1):
        return a + b


class Idx:
    def __index__(self):
        return 1


@lemma
def str_call_index(x: int):
    f = Fmt()
    assert str(f) == "S"
    assert Callme()(x) == x + 1 and Callme()(x, b=2) == x + 2 and callable(Callme()) and not callable(Plain())
    assert "{:>4}|{:<3}|{:^5}".format("a", "b", "c") == "   a|b  |  c  " and "{0}{1}{0}".format("a", "b") == "aba"
    assert "{:.3f}".format(2.0 / 3) == "0.667" and "{:5d}".format(42) == "   42" and "{:e}".format(1234.5) == "1.234500e+03"


class CM:
    def __init__(self, suppress):
        self.suppress = suppress
        self.log = []

    def __enter__(self):
        self.log.append("enter")
        return "target"

    def __exit__(self, t, v, tb):
        self.log.append(("exit", t is None, t is ValueError))
        return self.suppress


def with_return(cm):
    with cm:
        return 1
    return 2


@lemma
def context_managers(x: int):
    cm = CM(True)
    with cm as t:
        cm.log.append(t)
        raise ValueError("boom")
    assert cm.log == ["enter", "target", ("exit", False, True)], "exception suppressed by a true __exit__"
    cm = CM(False)
    ok = False
    try:
        with cm:
            raise ValueError("boom")
    except ValueError:
        ok = True
    assert ok and cm.log[-1] == ("exit", False, True)
    cm = CM(0)
    with cm:
        pass
    assert cm.log[-1] == ("exit", True, False)
    cm = CM(True)
    assert with_return(cm) == 1 and cm.log[-1] == ("exit", True, False), "return inside with runs __exit__ with no exception"
    a, b = CM(True), CM(False)
    with a, b:
        raise ValueError
    assert b.log[-1] == ("exit", False, True) and a.log[-1] == ("exit", False, True), "inner does not suppress, outer sees it"
    a, b = CM(False), CM(True)
    with a, b:
        raise ValueError
    assert b.log[-1] == ("exit", False, True) and a.log[-1] == ("exit", True, False), "inner suppresses, outer sees none"
    for i in range(3):
        c = CM(False)
        with c:
            if i == 1:
                break
            continue
    assert i == 1 and c.log[-1] == ("exit", True, False)


@functools.total_ordering
class TO:
    def __init__(self, v):
        self.v = v

    def __eq__(self, o):
        return self.v == o.v

    def __lt__(self, o):
        return self.v < o.v


@lemma
def total_ordering(x: int):
    assert TO(1) <= TO(2) and TO(2) >= TO(2) and TO(3) > TO(2) and not TO(1) >= TO(2)
    assume(x > 2)
    assert TO(x) > TO(2) and TO(x) >= TO(x)


class GtOnly:
    def __init__(self, v):
        self.v = v

    def __gt__(self, o):
        return self.v > o


@lemma
def reflected_ordering(n: int):
    # (moved here from refused_constructs.py: int < obj asks obj.__gt__, modelled since the audit-B merge)
    assert 1 < GtOnly(n + 2) or n + 2 <= 1
    assert (n < GtOnly(n + 1))
