from spec import *


class Box:
    pass


@lemma
def augmented_assignment_on_builtin_containers_updates_the_object(n: int):
    s = {1, 2}
    t = s
    t |= {3}
    t -= {1}
    assert s is t and sorted(s) == [2, 3]
    l = [1, 2]
    m = l
    m *= 2
    m += [5]
    assert l is m and l == [1, 2, 1, 2, 5]
    h = new(Box, a=l, b=s)
    h.a += [7]
    h.b &= {3}
    assert l[-1] == 7 and sorted(s) == [3] and h.a is l and h.b is s
    u = l
    u = u + [1]
    assert u is not l and len(l) == 6
