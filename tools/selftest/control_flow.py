"""Self-test of the engine's model of control flow (pyvc/symex.py ex_Try / ex_Raise / ex_Assert, pyvc/loops.py exec_for /
call_generator): try / except / else / finally ordering, `return` in finally overriding an exception, break / continue through
finally, exception class hierarchy (tuples of classes, LookupError, ArithmeticError, BaseException, multiple inheritance),
exceptions of builtin operations, bare raise, a handler's exception not caught by its siblings, the exception variable unbound
after the handler, raise in finally, else not covered by the handlers, generators (early return, position kept after break,
StopIteration -> RuntimeError), for / while else, removing from a list while iterating it, dict insertion order, assert with
message, chained assignment, conditional expressions.

Each lemma states what CPython does (green natively = the statement is true of CPython) and is then run symbolically
(green = the engine's model agrees).  Negated statements (`is not`, `raises(...)`) refute plausible wrong models.

  cp tools/selftest/control_flow.py contracts/T00_control_flow.py
  python3-vt -m pyvc.run contracts/T00_control_flow.py
  PYTHONPATH=/repo:contracts /venv/bin/python contracts/native_runner.py cross contracts/T00_control_flow.py --n 20
  rm contracts/T00_control_flow.py
"""
from spec import *


def raises(fn, exc):
    try:
        fn()
    except exc:
        return True
    except Exception:
        return False
    return False


def order(kind, log):
    try:
        log.append("try")
        if kind == 1:
            raise ValueError("v")
        if kind == 2:
            raise KeyError("k")
        if kind == 3:
            return "ret-try"
    except ValueError as e:
        log.append("except")
        return "ret-except"
    else:
        log.append("else")
    finally:
        log.append("finally")
    return "end"


def finally_overrides(kind):
    try:
        if kind == 0:
            return "try"
        raise ValueError
    finally:
        if kind < 2:
            return "finally"


def loop_finally(log):
    for i in range(3):
        try:
            if i == 0:
                continue
            if i == 1:
                break
        finally:
            log.append(i)
    return i


@lemma
def try_ordering(x: int):
    log = []
    assert order(0, log) == "end" and log == ["try", "else", "finally"]
    log = []
    assert order(1, log) == "ret-except" and log == ["try", "except", "finally"]
    log = []
    assert raises(lambda: order(2, log), KeyError) and log == ["try", "finally"]
    log = []
    assert order(3, log) == "ret-try" and log == ["try", "finally"], "else is skipped on return"
    assert finally_overrides(0) == "finally" and finally_overrides(1) == "finally", "return in finally swallows the exception"
    assert raises(lambda: finally_overrides(2), ValueError)
    log = []
    assert loop_finally(log) == 1 and log == [0, 1]


class MyErr(LookupError):
    pass


class MyKey(KeyError, MyErr):
    pass


def classify(exc):
    try:
        raise exc
    except (IndexError, KeyError):
        return "index-or-key"
    except LookupError:
        return "lookup"
    except ArithmeticError:
        return "arith"
    except Exception:
        return "exception"
    except BaseException:
        return "base"


@lemma
def exception_hierarchy(x: int):
    assert classify(KeyError("a")) == "index-or-key" and classify(IndexError()) == "index-or-key"
    assert classify(MyErr()) == "lookup" and classify(MyKey()) == "index-or-key"
    assert classify(ZeroDivisionError()) == "arith" and classify(OverflowError()) == "arith"
    assert classify(ValueError) == "exception"
    assert classify(KeyboardInterrupt()) == "base" and classify(StopIteration()) == "exception"


@lemma
def builtin_exceptions(x: int):
    assert raises(lambda: [][0], LookupError) and raises(lambda: {}[0], LookupError) and raises(lambda: 1 // 0, ArithmeticError)
    assert raises(lambda: int("x"), ValueError) and raises(lambda: None.foo, AttributeError)
    assert raises(lambda: [].pop(), IndexError) and raises(lambda: {}.pop(1), KeyError) and raises(lambda: [1].remove(2), ValueError)
    assert raises(lambda: next(iter([])), StopIteration)
    assert issubclass(FileNotFoundError, OSError) and issubclass(IOError, OSError) and issubclass(NotImplementedError, RuntimeError)
    assert issubclass(ModuleNotFoundError, ImportError) and not issubclass(KeyError, ValueError)


def reraiser(log):
    try:
        try:
            raise ValueError("inner")
        except ValueError as e:
            log.append(e.args[0])
            raise
    except ValueError as e2:
        log.append("outer")
        return e2


def handler_raises_other():
    try:
        raise KeyError("k")
    except KeyError:
        raise IndexError("i")
    except IndexError:
        return "wrong: sibling handlers do not catch"


def excvar_unbound():
    e = 1
    try:
        raise ValueError
    except ValueError as e:
        pass
    return e


def nested_bare_raise():
    try:
        raise KeyError("outer")
    except KeyError:
        try:
            raise ValueError("inner")
        except ValueError:
            pass
        raise


def raise_in_finally_replaces():
    try:
        raise KeyError("a")
    finally:
        raise ValueError("b")


def exc_in_else():
    try:
        pass
    except ValueError:
        return "handler"
    else:
        raise ValueError("from else")


@lemma
def reraise_handlers_finally(x: int):
    log = []
    e = reraiser(log)
    assert log == ["inner", "outer"] and e.args == ("inner",)
    assert raises(handler_raises_other, IndexError)
    assert raises(excvar_unbound, UnboundLocalError)
    assert raises(nested_bare_raise, KeyError), "bare raise re-raises the exception of the handler it is in"
    assert raises(raise_in_finally_replaces, ValueError)
    assert raises(exc_in_else, ValueError), "the handlers do not cover the else block"
    try:
        raise MyErr("a", x)
    except MyErr as m:
        assert m.args == ("a", x)


def gen_early_return(n):
    for i in range(10):
        if i == n:
            return
        yield i


def gen_pure(n):
    yield n
    yield n + 1


@lemma
def pure_generators(x: int):
    assert list(gen_early_return(2)) == [0, 1]
    assert list(zip(gen_early_return(3), gen_early_return(2))) == [(0, 0), (1, 1)]
    assert any(v == 1 for v in gen_early_return(9))
    g = gen_pure(x)
    assert next(g) == x and next(g) == x + 1 and next(g, None) is None


@lemma
def generator_keeps_position(x: int):
    g2 = gen_early_return(5)
    assert next(g2) == 0
    for v in g2:
        if v == 2:
            break
    assert next(g2) == 3, "a generator keeps its position after break"


def gen_stop():
    yield 1
    raise StopIteration


@lemma
def stopiteration_in_generator_is_runtimeerror(x: int):
    assert raises(lambda: list(gen_stop()), RuntimeError)


@lemma
def loops_with_else(x: int):
    log = []
    for i in range(3):
        if i == x:
            break
    else:
        log.append("for-else")
    assert (log == []) == (0 <= x and x < 3)
    n = 0
    while n < 3:
        n += 1
        if n == 5:
            break
    else:
        log.append("while-else")
    assert log[-1] == "while-else"
    for i in []:
        pass
    else:
        log.append("empty")
    assert log[-1] == "empty"
    k = 0
    for i in range(3):
        for j in range(3):
            if j == 1:
                break
            k += 1
        else:
            k += 100
    assert k == 3 and i == 2 and j == 1
    l = [1, 2, 3, 4]
    for v in l:
        if v == 2:
            l.remove(v)
    assert l == [1, 3, 4] and v == 4
    r = range(3)
    for i in r:
        i = 10
    assert i == 10
    it = 5
    for it in range(0):
        pass
    assert it == 5, "loop variable unchanged by an empty loop"


@lemma
def dict_iteration(x: int):
    d = {1: "a", 2: "b"}
    for k in d:
        d[k] = "z"
    assert d == {1: "z", 2: "z"}, "changing values while iterating is fine"
    for k in list(d):
        del d[k]
    assert d == {}
    d = {3: 1, 1: 2, 2: 3}
    assert list(d) == [3, 1, 2] and list(d.values()) == [1, 2, 3], "insertion order"
    d[3] = 9
    d[0] = 0
    del d[1]
    d[1] = 5
    assert list(d.items()) == [(3, 9), (2, 3), (0, 0), (1, 5)]


@lemma
def assert_and_misc(x: int):
    log = []
    def t(v):
        log.append(v)
        return v
    assert t(1), t("msg not evaluated")
    assert log == [1]
    a = b = []
    a.append(1)
    assert b == [1] and a is b, "chained assignment binds one object"
    p = q = 0
    p += 1
    assert q == 0
    t1 = (1, [2])
    t1[1].append(3)
    assert t1 == (1, [2, 3])
    s = "ab"
    s2 = s
    s += "c"
    assert s2 == "ab"
    y = 5 if x > 0 else 6 if x < 0 else 7
    assert y == (5 if x > 0 else (6 if x < 0 else 7))
