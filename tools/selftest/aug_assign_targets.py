"""Self-test of augmented assignment on names, attributes and subscripts for every built-in container kind and for objects
with / without __iadd__ (pyvc/symex.py ex_AugAssign, pyvc/ops.py binop(inplace=True)): the target is LOADED before the
right-hand side is evaluated (`a.n += a.bump()` where bump changes a.n), frozenset `|=` rebinds (no mutation), list / set
in place through every alias, tuple / str / int rebinding, __iadd__ returning self or a new object, __add__ fallback,
all arithmetic / bit operators on ints.

  cp tools/selftest/aug_assign_targets.py contracts/T00_aug.py
  python3-vt -m pyvc.run contracts/T00_aug.py
  PYTHONPATH=/repo:contracts /venv/bin/python contracts/native_runner.py cross contracts/T00_aug.py --n 20
  rm contracts/T00_aug.py
"""


from spec import *


class Box:
    pass


class Acc:
    def __init__(self):
        self.log = []
        self.n = 0

    def __iadd__(self, o):
        self.log.append(o)
        return self

    def bump(self):
        self.n += 10
        return 1


class Plain:
    def __init__(self, v):
        self.v = v

    def __add__(self, o):
        return Plain(self.v + o)


class IaddNew:
    def __init__(self, v):
        self.v = v

    def __iadd__(self, o):
        return IaddNew(self.v + o)


def _bumpd(d):
    d["k"] += 10
    return 1


def _bumpl(l):
    l[0] += 10
    return 1


@lemma
def tuple_iadd_rebinds(n: int):
    t = (1, 2)
    u = t
    u += (3,)
    assert t == (1, 2) and u == (1, 2, 3) and u is not t


@lemma
def dict_item_iadd(n: int):
    d = {"a": 1}
    e = d
    d["a"] += n
    assert e["a"] == 1 + n
    x = n
    y = x
    y += 1
    assert x == n and y == n + 1


@lemma
def str_iadd(n: int):
    s = "ab"
    t = s
    t += "c"
    assert s == "ab" and t == "abc"
    t *= 2
    assert t == "abcabc"


@lemma
def obj_with_iadd(n: int):
    a = Acc()
    b = a
    b += n
    assert a is b and a.log == [n]
    h = new(Box, a=a)
    h.a += 5
    assert h.a is a and a.log == [n, 5]
    l = [a]
    l[0] += 7
    assert l[0] is a and a.log == [n, 5, 7]


@lemma
def obj_without_iadd_falls_back_to_add(n: int):
    p = Plain(n)
    q = p
    q += 2
    assert q is not p and p.v == n and q.v == n + 2


@lemma
def obj_iadd_returning_new_object_rebinds(n: int):
    p = IaddNew(n)
    q = p
    q += 2
    assert q is not p and p.v == n and q.v == n + 2
    h = new(Box, a=p)
    h.a += 1
    assert h.a is not p and h.a.v == n + 1 and p.v == n


@lemma
def attr_augassign_reads_target_before_rhs(n: int):
    a = Acc()
    a.n = n
    a.n += a.bump()
    # CPython: load a.n (n), evaluate rhs (a.n becomes n + 10, returns 1), store n + 1
    assert a.n == n + 1
    assert a.n != n + 11


@lemma
def subscript_augassign_reads_target_before_rhs(n: int):
    d = {"k": n}
    d["k"] += _bumpd(d)
    assert d["k"] == n + 1
    l = [n]
    l[0] += _bumpl(l)
    assert l[0] == n + 1


@lemma
def list_item_list_iadd_is_inplace(n: int):
    inner = [1]
    outer = [inner, inner]
    outer[0] += [n]
    assert outer[1] == [1, n] and outer[0] is inner
    d = {"a": inner}
    d["a"] += [3]
    assert inner == [1, n, 3]
    d["a"] *= 2
    assert inner == [1, n, 3, 1, n, 3] and d["a"] is inner


@lemma
def list_imul_zero_and_negative(n: int):
    l = [1, 2]
    m = l
    m *= 0
    assert l is m and l == []
    l2 = [1]
    l2 *= -3
    assert l2 == []


@lemma
def list_iadd_self(n: int):
    l = [1, n]
    l += l
    assert l == [1, n, 1, n]


@lemma
def set_augmented_ops(n: int):
    s = {1, 2, 3}
    t = s
    t ^= {3, 4}
    assert s is t and sorted(s) == [1, 2, 4]
    t -= {9}
    assert sorted(s) == [1, 2, 4]
    fs = frozenset([1, 2])
    g = fs
    g |= frozenset([3])
    assert fs == frozenset([1, 2]) and g == frozenset([1, 2, 3])


@lemma
def int_augmented_ops(n: int, m: int):
    assume(m != 0)
    x = n
    x -= m
    assert x == n - m
    x = n
    x *= m
    assert x == n * m
    x = n
    x //= m
    assert x == n // m
    x = n
    x %= m
    assert x == n % m
    x = 7
    x **= 2
    assert x == 49
    x = 5
    x <<= 2
    assert x == 20
    x >>= 1
    assert x == 10
    x &= 6
    assert x == 2
    x |= 5
    assert x == 7
    x ^= 1
    assert x == 6
    y = n
    y /= 2
    assert eq(y, n / 2)
