"""Self-test of the engine's model of copy / pickle / dataclasses (pyvc/attrs.py copy.deepcopy, pickle recipe, _plain_copy;
pyvc/symex.py instantiate_dataclass): default_factory gives a fresh object per instance, deepcopy preserves cycles and sharing
through the memo and honours __deepcopy__ / __copy__ / __getstate__ / __setstate__, copy.copy is shallow, pickle round trips
object graphs (cycles, __getstate__/__setstate__, __reduce__) and preserves sharing inside plain data (`a is b` for (l, l)).

Each lemma states what CPython does (green natively = the statement is true of CPython) and is then run symbolically
(green = the engine's model agrees).  Negated statements (`is not`, `raises(...)`) refute plausible wrong models.

  cp tools/selftest/copy_pickle_dataclass.py contracts/T00_copy_pickle_dataclass.py
  python3-vt -m pyvc.run contracts/T00_copy_pickle_dataclass.py
  PYTHONPATH=/repo:contracts /venv/bin/python contracts/native_runner.py cross contracts/T00_copy_pickle_dataclass.py --n 20
  rm contracts/T00_copy_pickle_dataclass.py
"""
import copy
import dataclasses
import enum
import functools
import pickle
from dataclasses import dataclass, field

from spec import *


def raises(fn, exc):
    try:
        fn()
    except exc:
        return True
    except Exception:
        return False
    return False


@dataclass
class DC:
    a: int
    b: list = field(default_factory=list)
    c: int = 5


@lemma
def dataclass_basics(x: int):
    p, q = DC(x), DC(x)
    assert p.b == [] and p.b is not q.b and p.c == 5, "default_factory makes a fresh list per instance"
    p.b.append(1)
    assert q.b == []
    assert raises(lambda: DC(), TypeError) and DC(1, [2], 3).c == 3 and DC(a=1, c=2).c == 2


class Red:
    def __init__(self, a, b):
        self.a = a
        self.b = b

    def __reduce__(self):
        return (Red, (self.a, 0))


class Node:
    def __init__(self, v):
        self.v = v
        self.kids = []
        self.parent = None


class Custom:
    def __init__(self, v):
        self.v = v
        self.cache = [1]

    def __getstate__(self):
        d = dict(self.__dict__)
        d["cache"] = None
        return d

    def __setstate__(self, d):
        self.__dict__.update(d)
        self.restored = True


class DeepC:
    def __init__(self, v):
        self.v = v
        self.shared = [v]

    def __deepcopy__(self, memo):
        n = DeepC(self.v)
        memo[id(self)] = n
        n.shared = self.shared
        return n

    def __copy__(self):
        return DeepC(-1)


@lemma
def deepcopy_graphs(x: int):
    r = Node(x)
    k = Node(x + 1)
    r.kids.append(k)
    k.parent = r
    shared = [1]
    r.s1 = shared
    r.s2 = shared
    c = copy.deepcopy(r)
    assert c is not r and c.kids[0] is not k and c.kids[0].parent is c
    assert c.s1 is c.s2 and c.s1 is not shared
    s = copy.copy(r)
    assert s is not r and s.kids is r.kids
    l = [r, r]
    lc = copy.deepcopy(l)
    assert lc[0] is lc[1] and lc[0] is not r


@lemma
def deepcopy_protocols(x: int):
    d = DeepC(x)
    dd = copy.deepcopy([d, d])
    assert dd[0] is dd[1] and dd[0].shared is d.shared and dd[0] is not d
    assert copy.copy(d).v == -1
    cu = copy.deepcopy(Custom(x))
    assert cu.cache is None and cu.restored and cu.v == x


@lemma
def pickle_roundtrip(x: int):
    r = Node(x)
    k = Node(x + 1)
    r.kids.append(k)
    k.parent = r
    c = pickle.loads(pickle.dumps(r))
    assert c is not r and c.kids[0].parent is c and c.v == x
    cu = pickle.loads(pickle.dumps(Custom(x)))
    assert cu.cache is None and cu.restored and cu.v == x
    rr = pickle.loads(pickle.dumps(Red(x, 9)))
    assert rr.a == x and rr.b == 0
    l = [1, 2]
    a, b = pickle.loads(pickle.dumps((l, l)))
    assert a is b and a == l and a is not l


