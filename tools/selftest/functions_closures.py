"""Self-test of the engine's model of functions (pyvc/symex.py bind_args / call_func / closure_of / eval_default / ex_FunctionDef):
argument binding and arity errors, default arguments evaluated once (a mutable default keeps state), closures that share the
enclosing VARIABLE (late binding of loop variables, nonlocal), global, UnboundLocalError, recursion, decorators applied
bottom-up (functools.wraps), evaluation order (call arguments, dict displays, assignment targets, chained comparison, and/or
returning operands, conditional expression, walrus), star unpacking, comprehension scope, augmented assignment reading the
target before the right-hand side.

Each lemma states what CPython does (green natively = the statement is true of CPython) and is then run symbolically
(green = the engine's model agrees).  Negated statements (`is not`, `raises(...)`) refute plausible wrong models.

  cp tools/selftest/functions_closures.py contracts/T00_functions_closures.py
  python3-vt -m pyvc.run contracts/T00_functions_closures.py
  PYTHONPATH=/repo:contracts /venv/bin/python contracts/native_runner.py cross contracts/T00_functions_closures.py --n 20
  rm contracts/T00_functions_closures.py
"""
import functools

from spec import *


def f_pos(a, b=2, *args, c=3, **kw):
    return (a, b, args, c, sorted(kw.items()))


def f_simple(a, b):
    return a - b


def f_kwonly(a, *, k):
    return a + k


def raises(fn, exc):
    try:
        fn()
    except exc:
        return True
    except Exception:
        return False
    return False


@lemma
def argument_binding(x: int, y: int):
    assert f_pos(x) == (x, 2, (), 3, [])
    assert f_pos(x, y, 7, 8) == (x, y, (7, 8), 3, [])
    assert f_pos(x, c=y, z=1, b=5) == (x, 5, (), y, [("z", 1)])
    assert f_pos(*[x, y, 9], **{"c": 4, "q": 5}) == (x, y, (9,), 4, [("q", 5)])
    assert f_simple(b=x, a=y) == y - x
    assert f_kwonly(x, k=y) == x + y
    assert raises(lambda: f_simple(x), TypeError)
    assert raises(lambda: f_simple(x, y, 1), TypeError)
    assert raises(lambda: f_simple(x, a=y), TypeError), "multiple values for a"
    assert raises(lambda: f_simple(x, y, c=1), TypeError)
    assert raises(lambda: f_kwonly(x, y), TypeError)
    assert raises(lambda: f_kwonly(x), TypeError)
    assert raises(lambda: f_pos(), TypeError)
    assert raises(lambda: f_pos(x, a=1), TypeError)


def mutable_default(v, acc=[]):
    acc.append(v)
    return acc


@lemma
def mutable_default_is_shared(x: int, y: int):
    a = mutable_default(x, [])
    assert a == [x]
    b = mutable_default(x)
    n0 = len(b)
    c = mutable_default(y)
    assert b is c and len(c) == n0 + 1 and c[-1] == y and c[-2] == x, "default list evaluated once"


@lemma
def closures_bind_late(x: int):
    fs = []
    for i in range(3):
        fs.append(lambda: i + x)
    assert [f() for f in fs] == [2 + x, 2 + x, 2 + x], "closures see the last value of the loop variable"
    assert fs[0]() != x or False
    gs = [lambda i=i: i + x for i in range(3)]
    assert [g() for g in gs] == [x, 1 + x, 2 + x], "default captures early"
    k = 1
    def getk():
        return k
    k = 5
    assert getk() == 5


def counter():
    n = 0
    def inc():
        nonlocal n
        n += 1
        return n
    def get():
        return n
    return inc, get


@lemma
def nonlocal_shares_a_cell(x: int):
    inc, get = counter()
    inc2, get2 = counter()
    inc(); inc()
    assert get() == 2 and get2() == 0
    inc2()
    assert get() == 2 and get2() == 1


G = 10


def setg(v):
    global G
    G = v


def readg():
    return G


def shadowg(v):
    G = v
    return G


@lemma
def global_statement(x: int):
    g0 = readg()
    shadowg(x)
    assert readg() == g0, "assignment without global is local"
    setg(x)
    assert readg() == x
    setg(g0)


def unbound_local(flag):
    if flag:
        v = 1
    return v


def unbound_global_shadow():
    r = G
    G = 2
    return r


@lemma
def unbound_locals_raise(x: int):
    assert unbound_local(True) == 1
    assert raises(lambda: unbound_local(False), UnboundLocalError)
    assert raises(lambda: unbound_local(False), NameError)
    assert raises(unbound_global_shadow, UnboundLocalError), "a name assigned anywhere in the function is local everywhere"


def fact(n):
    return 1 if n <= 0 else n * fact(n - 1)


def ev(n):
    return True if n == 0 else od(n - 1)


def od(n):
    return False if n == 0 else ev(n - 1)


@lemma
def recursion(x: int):
    assert fact(5) == 120
    assert ev(4) and not ev(3)
    assume(0 <= x and x <= 3)
    assert fact(x) >= 1 and fact(x) <= 6


def deco(fn):
    @functools.wraps(fn)
    def w(*a, **k):
        return fn(*a, **k) + 1
    return w


def deco_arg(n):
    def d(fn):
        def w(*a, **k):
            return fn(*a, **k) * n
        return w
    return d


@deco
@deco_arg(3)
def decorated(a, b=1):
    "doc"
    return a + b


@deco_arg(3)
@deco
def decorated2(a, b=1):
    return a + b


@lemma
def decorators_apply_bottom_up(x: int):
    assert decorated(x) == (x + 1) * 3 + 1
    assert decorated2(x, b=2) == (x + 2 + 1) * 3
    assert decorated2.__name__ == "w"


@lemma
def lambda_defaults_and_evaluation_order(x: int):
    log = []
    def t(v):
        log.append(v)
        return v
    r = f_simple(t(1), t(2))
    assert log == [1, 2] and r == -1
    log.clear()
    r = f_simple(b=t(1), a=t(2))
    assert log == [1, 2] and r == 1, "keyword arguments are evaluated in source order"
    log.clear()
    d = {t(1): t(2), t(3): t(4)}
    assert log == [1, 2, 3, 4]
    log.clear()
    l = [0, 0]
    l[t(0)] = t(5)
    assert log == [5, 0], "right-hand side first"
    log.clear()
    a = t(1) < t(2) < t(0) < t(9)
    assert log == [1, 2, 0] and a is False, "chained comparison short-circuits, evaluates middle once"
    log.clear()
    q = t(0) or t(7) or t(8)
    assert q == 7 and log == [0, 7]
    q = t(3) and t(0) and t(8)
    assert q == 0
    q = [] or {} or ()
    assert q == () and q is not False
    q = x or "z"
    assert (q == "z") if x == 0 else (q == x)
    log.clear()
    z = t(1) if t(0) else t(2)
    assert z == 2 and log == [0, 2]
    log.clear()
    u, v = t(1), t(2)
    l2 = [0, 1, 2]
    i = 0
    i, l2[i] = 2, 9
    assert l2 == [0, 1, 9], "targets assigned left to right"
    w = [y := t(4), y + 1]
    assert w == [4, 5] and y == 4


@lemma
def star_unpacking(x: int):
    a, *b, c = [x, 1, 2, 3]
    assert a == x and b == [1, 2] and c == 3
    a, *b = (x,)
    assert b == [] and isinstance(b, list)
    assert raises(lambda: exec_unpack(), ValueError)
    (p, q), r = (1, x), 3
    assert q == x
    for i, (m, n) in enumerate([(1, 2), (3, x)]):
        pass
    assert i == 1 and n == x


def exec_unpack():
    a, b = [1, 2, 3]
    return a


@lemma
def comprehension_scope(x: int):
    i = 5
    l = [i for i in range(3)]
    assert i == 5 and l == [0, 1, 2], "the comprehension variable is local to the comprehension"
    s = {i for i in range(2)}
    d = {i: i for i in range(2)}
    g = list(i for i in range(2))
    assert i == 5
    m = [y := 7, y + 1]
    z = [(w := j) for j in range(3)]
    assert w == 2 and y == 7, "walrus in a comprehension binds in the enclosing function"



class Acc:
    def __init__(self):
        self.v = 1

    def bump(self):
        self.v = 10
        return 1


@lemma
def augmented_assignment_order(x: int):
    a = Acc()
    a.v += a.bump()
    assert a.v == 2, "the old value is read before the right-hand side runs"
    l = [1]
    def grow():
        l[0] = 50
        return 1
    l[0] += grow()
    assert l[0] == 2
    n = 1
    def setn():
        nonlocal n
        n = 100
        return 1
    n += setn()
    assert n == 2
