"""Self-test of the engine's model of iterating a list that is changed by the loop body (pyvc/loops.py unroll_live,
lazy_note / lazy_check).

Python walks a list by index over the LIVE object (removing the current element skips the next one; appended elements
are visited).  `for x in <list>` is modelled exactly.  Generators, generator expressions and iter() are evaluated
eagerly by the engine (A3); a loop that changes a list such an iterator was computed from must come out UNDECIDED
(`unsupported`), never with a verdict.

  cp tools/selftest/list_iteration.py contracts/T00_iter.py
  python3-vt -m pyvc.run contracts/T00_iter.py          # expected: exact_* ok, guarded_* unsupported
  PYTHONPATH=/repo:contracts /venv/bin/python contracts/native_runner.py cross contracts/T00_iter.py --n 5   # all pass
  rm contracts/T00_iter.py
"""
from spec import *


class B:
    def __iter__(self):
        return iter(self.xs)

    def nested(self):
        return (c for child in self for c in [child])


def gen(xs):
    for x in xs:
        yield x


@lemma(gen={})
def exact_list_loop_sees_the_live_list():
    xs = [1, 2, 2, 3]
    for x in xs:
        if x == 2:
            xs.remove(x)
    assert xs == [1, 2, 3], "removing the current element skips the next one"
    ys = [5, 6]
    for y in ys:
        if len(ys) < 4:
            ys.append(y + 10)
    assert ys == [5, 6, 15, 16], "appended elements are visited"


@lemma(gen={})
def exact_without_mutation():
    b = new(B, xs=[1, 2, 2, 3])
    out = []
    for x in b.nested():
        out.append(x)
    assert out == [1, 2, 2, 3] and [y for y in b] == out and [y for y in gen(b.xs)] == out


@lemma(gen={})
def guarded_iter():
    xs = [1, 2, 2, 3]
    for x in iter(xs):
        if x == 2:
            xs.remove(x)
    assert xs == [1, 2, 3]


@lemma(gen={})
def guarded_generator_expression():
    xs = [1, 2, 2, 3]
    for x in (c for c in xs):
        if x == 2:
            xs.remove(x)
    assert xs == [1, 2, 3]


@lemma(gen={})
def guarded_generator_function():
    xs = [1, 2, 2, 3]
    for x in gen(xs):
        if x == 2:
            xs.remove(x)
    assert xs == [1, 2, 3]


@lemma(gen={})
def guarded_object_with_iter():
    b = new(B, xs=[1, 2, 2, 3])
    for x in b:
        if x == 2:
            b.xs.remove(x)
    assert b.xs == [1, 2, 3]


@lemma(gen={})
def guarded_nested_generator_over_object():
    b = new(B, xs=[1, 2, 2, 3])
    for x in b.nested():
        if x == 2:
            b.xs.remove(x)
    assert b.xs == [1, 2, 3]
