"""Self-test of numbers, strings and slices against CPython: // and % with negative operands (int and float), divmod,
int() truncation / int(text) / int(text, base), round half-to-even (and the int / float result type), ** with negative / zero
exponents, bool arithmetic, ZeroDivisionError for every division operator, math.floor / ceil, int * str, tuple ordering,
the TypeErrors Python really raises for operators / orderings, str methods (split, join, strip, startswith, zfill, replace,
find, partition, just ...), slices with negative indices / steps and out-of-range bounds (concrete and symbolic bounds,
including negative steps), slice assignment of another length, del of items and slices.

  cp tools/selftest/numbers_strings_slices.py contracts/T00_num.py
  python3-vt -m pyvc.run contracts/T00_num.py
  PYTHONPATH=/repo:contracts /venv/bin/python contracts/native_runner.py cross contracts/T00_num.py --n 20
  rm contracts/T00_num.py
"""
import math

from spec import *


class V:
    def __init__(self, v):
        self.v = v

    def __gt__(self, o):
        return self.v > o


@lemma
def int_times_sequence(n: int):
    assert 2 * "ab" == "abab" and 2 * (1, n) == (1, n, 1, n) and "ab" * 0 == "" and -1 * (1,) == ()
    assert True * "ab" == "ab"


@lemma
def type_errors_that_are_real(n: int):
    r = 0
    try:
        x = "a" + 1
    except TypeError:
        r += 1
    try:
        x = None + 1
    except TypeError:
        r += 1
    try:
        x = "a" < 1
    except TypeError:
        r += 1
    try:
        x = (1,) < "a"
    except TypeError:
        r += 1
    try:
        x = "ab" * 2.0
    except TypeError:
        r += 1
    try:
        x = None < None
    except TypeError:
        r += 1
    assert r == 6


@lemma
def tuple_ordering_mixed(n: int):
    assert (1, "a") < (1, "b") and (1, 2) < (1, 2, 3) and () < (1,) and not ((2,) < (1, 9))
    assert (n, 1) < (n, 2) and (n, 1) <= (n, 1)
    assert ("a", 1) < ("b", 0)


@lemma
def floor_division_and_modulo_signs(a: int, b: int):
    assume(b != 0)
    q = a // b
    r = a % b
    assert q * b + r == a
    assert implies(b > 0, 0 <= r and r < b) and implies(b < 0, b < r and r <= 0)
    assert divmod(a, b) == (q, r)
    assert -7 // 2 == -4 and -7 % 2 == 1 and 7 // -2 == -4 and 7 % -2 == -1 and -7 // -2 == 3 and -7 % -2 == -1
    assert divmod(-7, 2) == (-4, 1)


@lemma
def float_floor_division_and_modulo(x: float):
    assert -7.5 // 2 == -4 and -7.5 % 2 == 0.5 and 7.5 % -2 == -0.5
    assert eq(x // 1 + x % 1, x) and 0 <= x % 1 and x % 1 < 1
    assert isinstance(7.0 // 2, float) and isinstance(7 // 2, int) and isinstance(7 / 7, float)
    assert divmod(7.5, 2) == (3, 1.5)


@lemma
def int_conversion_truncates(x: float):
    assert int(-2.5) == -2 and int(2.9) == 2 and int(-0.5) == 0 and int("12") == 12 and int(" -7 ") == -7 and int("0012") == 12
    assert int(True) == 1 and int(3) == 3 and int("1_000") == 1000
    i = int(x)
    assert implies(x >= 0, i <= x and x < i + 1) and implies(x < 0, i >= x and x > i - 1)
    r = 0
    try:
        int("1.5")
    except ValueError:
        r = 1
    assert r == 1
    try:
        int("abc")
    except ValueError:
        r = 2
    assert r == 2
    try:
        int(None)
    except TypeError:
        r = 3
    assert r == 3
    assert int("ff", 16) == 255


@lemma
def round_half_to_even(x: float, n: int):
    assert round(0.5) == 0 and round(1.5) == 2 and round(2.5) == 2 and round(-0.5) == 0 and round(-1.5) == -2 and round(3.5) == 4
    assert isinstance(round(2.5), int) and isinstance(round(2.5, 0), float) and isinstance(round(n), int)
    assert round(n) == n and round(7, -1) == 10 and round(15, -1) == 20 and round(25, -1) == 20
    assert round(1.25, 1) == 1.2 and round(2.675, 2) == 2.67 if NATIVE else True
    r = round(x)
    assert r - 0.5 <= x and x <= r + 0.5


@lemma
def power_cases(n: int, x: float):
    assert 2 ** -1 == 0.5 and isinstance(2 ** -1, float) and 2 ** 0 == 1 and isinstance(2 ** 0, int) and 0 ** 0 == 1
    assert (-2) ** 3 == -8 and (-2) ** 2 == 4 and -2 ** 2 == -4 and 2 ** 3 ** 2 == 512
    assert n ** 0 == 1 and n ** 1 == n and n ** 2 == n * n and x ** 0 == 1
    assert isinstance(n ** 2, int) and isinstance(n ** 0, int)
    r = 0
    try:
        y = 0 ** -1
    except ZeroDivisionError:
        r = 1
    assert r == 1
    try:
        y = 0.0 ** -2
    except ZeroDivisionError:
        r = 2
    assert r == 2
    assert 4 ** 0.5 == 2 and 2.0 ** 2 == 4


@lemma
def bool_arithmetic(b: bool, c: bool, n: int):
    assert True + True == 2 and True * 3 == 3 and sum([True, False, True]) == 2
    assert (b + c) <= 2 and b * n == (n if b else 0)
    assert isinstance(True + 0, int) and not isinstance(True + 0, bool)
    assert abs(-3) == 3 and abs(-2.5) == 2.5 and abs(n) >= 0 and abs(True) == 1
    assert -True == -1 and +True == 1 and ~True == -2 and (not 0) is True
    assert (1 if b else 0) == int(b) and bool(n) == (n != 0) and bool("") is False and bool("0") is True and bool([0]) is True
    assert (n and 5) == (5 if n != 0 else 0)
    assert (0 or None) is None and (0 and None) == 0 and ([] or "x") == "x"


@lemma
def division_types_and_errors(n: int):
    assert 7 / 2 == 3.5 and 6 / 3 == 2 and isinstance(6 / 3, float) and -7 / 2 == -3.5
    r = 0
    try:
        x = 1 / 0
    except ZeroDivisionError:
        r = 1
    assert r == 1
    try:
        x = 1 // 0
    except ZeroDivisionError:
        r = 2
    assert r == 2
    try:
        x = 1 % 0
    except ZeroDivisionError:
        r = 3
    assert r == 3
    try:
        x = divmod(1, 0)
    except ZeroDivisionError:
        r = 4
    assert r == 4
    try:
        x = 1.5 % 0.0
    except ZeroDivisionError:
        r = 5
    assert r == 5


@lemma
def math_floor_ceil_trunc(x: float):
    assert math.floor(-2.5) == -3 and math.ceil(-2.5) == -2 and math.floor(2) == 2
    assert isinstance(math.floor(2.5), int) and isinstance(math.ceil(2.5), int)
    f = math.floor(x)
    c = math.ceil(x)
    assert f <= x and x < f + 1 and c - 1 < x and x <= c
    assert float(3) == 3 and isinstance(float(3), float) and float("2.5") == 2.5 and float(" 1e3 ") == 1000
    assert max(1, 2.5) == 2.5 and min(1, 2.5) == 1 and isinstance(min(1, 2.5), int)


@lemma
def string_methods(n: int):
    s = "  a,b,,c  "
    assert s.strip() == "a,b,,c" and s.lstrip() == "a,b,,c  " and s.rstrip() == "  a,b,,c"
    assert s.strip().split(",") == ["a", "b", "", "c"] and "a b  c".split() == ["a", "b", "c"] and "a b  c".split(" ") == ["a", "b", "", "c"]
    assert "a,b,c".split(",", 1) == ["a", "b,c"] and "a,b,c".rsplit(",", 1) == ["a,b", "c"] and "".split() == [] and "".split(",") == [""]
    assert "xxabxx".strip("x") == "ab" and "abcba".strip("ab") == "c"
    assert ",".join(["a", "b"]) == "a,b" and "".join([]) == "" and "-".join("abc") == "a-b-c" and ",".join(("x",)) == "x"
    assert "abc".startswith("ab") and "abc".startswith(("x", "a")) and not "abc".startswith("b") and "abc".endswith("bc") and "abc".startswith("b", 1)
    assert "7".zfill(3) == "007" and "-7".zfill(4) == "-007" and "1234".zfill(2) == "1234"
    assert "aBc".upper() == "ABC" and "aBc".lower() == "abc" and "abc".capitalize() == "Abc" and "a b".title() == "A B"
    assert "aaa".replace("a", "b") == "bbb" and "aaa".replace("a", "b", 2) == "bba" and "abc".replace("x", "y") == "abc"
    assert "abc".find("c") == 2 and "abc".find("x") == -1 and "abca".rfind("a") == 3 and "abca".count("a") == 2 and "abc".index("b") == 1
    assert "abc".isalpha() and "123".isdigit() and not "12a".isdigit() and "a1".isalnum() and " ".isspace()
    assert "a\nb".splitlines() == ["a", "b"] and "abc".partition("b") == ("a", "b", "c") and "abc".rpartition("x") == ("", "", "abc")
    assert "ab" * 2 == "abab" and "ab" + "c" == "abc" and "b" in "abc" and "ac" not in "abc" and len("abc") == 3
    assert "abc"[0] == "a" and "abc"[-1] == "c" and "abc"[1:] == "bc" and "abc"[::-1] == "cba" and "abcdef"[1:5:2] == "bd"
    assert "abc".ljust(5) == "abc  " and "abc".rjust(5, "*") == "**abc" and "abc".center(5) == " abc "
    r = 0
    try:
        "abc".index("x")
    except ValueError:
        r = 1
    assert r == 1
    try:
        ",".join([1, 2])
    except TypeError:
        r = 2
    assert r == 2


@lemma
def slices_on_lists(n: int):
    l = [0, 1, 2, 3, 4, 5]
    assert l[1:3] == [1, 2] and l[-2:] == [4, 5] and l[:-2] == [0, 1, 2, 3] and l[::2] == [0, 2, 4] and l[::-1] == [5, 4, 3, 2, 1, 0]
    assert l[10:] == [] and l[:10] == l and l[-10:2] == [0, 1] and l[4:2] == [] and l[5:1:-2] == [5, 3] and l[-1:-4:-1] == [5, 4, 3]
    assert l[::-2] == [5, 3, 1] and l[1::-1] == [1, 0] and l[:2:-1] == [5, 4, 3] and l[-100::-1] == [] and l[:-100:-1] == l[::-1]
    m = l[:]
    assert m == l and m is not l
    l[1:3] = [9]
    assert l == [0, 9, 3, 4, 5]
    l[1:1] = [7, 8]
    assert l == [0, 7, 8, 9, 3, 4, 5]
    l[::2] = [1, 1, 1, 1]
    assert l == [1, 7, 1, 9, 1, 4, 1]
    l[5:] = []
    assert l == [1, 7, 1, 9, 1]
    l[10:] = [2]
    assert l == [1, 7, 1, 9, 1, 2]
    del l[0]
    assert l == [7, 1, 9, 1, 2]
    del l[-1]
    assert l == [7, 1, 9, 1]
    del l[1:3]
    assert l == [7, 1]
    del l[:]
    assert l == []
    r = 0
    try:
        del l[0]
    except IndexError:
        r = 1
    assert r == 1
    k = [1, 2, 3, 4]
    try:
        k[::2] = [1]
    except ValueError:
        r = 2
    assert r == 2
    k[1:3] = "ab"
    assert k == [1, "a", "b", 4]
    k[:0] = k
    assert k == [1, "a", "b", 4, 1, "a", "b", 4]
    t = (1, 2, 3)
    assert t[1:] == (2, 3) and t[::-1] == (3, 2, 1) and t[5:] == ()
    try:
        x = l[0]
    except IndexError:
        r = 3
    assert r == 3
    try:
        x = [1][1.0]
    except TypeError:
        r = 4
    assert r == 4
    assert [1, 2][True] == 2 and [1, 2][-1] == 2 and [1, 2][-2] == 1


@lemma
def slices_with_symbolic_bounds(i: int):
    l = [0, 1, 2]
    s = l[i:]
    assert implies(i >= 3, s == []) and implies(i <= -3, s == l) and implies(i == -1, s == [2]) and implies(i == 1, s == [1, 2])
    t = l[:i]
    assert implies(i >= 3, t == l) and implies(i <= -3, t == []) and implies(i == -1, t == [0, 1])
    assert len(s) + len(t) == 3


@lemma
def negative_step_slices_with_symbolic_bounds(i: int):
    l = [0, 1, 2]
    u = l[i::-1]
    assert implies(i <= -4, u == []) and implies(i == -3, u == [0]) and implies(i >= 2, u == [2, 1, 0]) and implies(i == 0, u == [0])
    v = l[:i:-1]
    assert implies(i <= -4, v == [2, 1, 0]) and implies(i == -3, v == [2, 1]) and implies(i >= 2, v == [])
