"""Self-test of the engine's model of numpy element types (pyvc/npmodel.py: cast_elem, nd_binop result kinds, in-place
casting, broadcasting, boolean masks).  Each lemma states what CPython + numpy 2.x do; run natively it checks the statement
against real numpy, run symbolically it checks the engine's model against the same statement.

  cp tools/selftest/numpy_dtypes.py contracts/T00_numpy_dtypes.py
  python3-vt -m pyvc.run contracts/T00_numpy_dtypes.py
  PYTHONPATH=/repo:contracts /venv/bin/python contracts/native_runner.py cross contracts/T00_numpy_dtypes.py --n 30
  rm contracts/T00_numpy_dtypes.py
"""
import copy
import math

import numpy as np

from spec import *


@lemma
def asarray_no_copy(a: float, b: float, x: float):
    m = np.array([a, b])
    s = np.asarray(m)
    assert s is m
    s[0] = x
    assert eq(m[0], x)
    c = np.array(m)
    assert c is not m
    c[1] = x + 1
    assert eq(m[1], b)


@lemma
def int_array_truncates_on_assignment(n: int):
    z = np.zeros(2, dtype=int)
    z[0] = 1.5
    assert z[0] == 1
    z[1] = -1.5
    assert z[1] == -1
    w = np.array([1, 2])
    w[0] = 2.75
    assert w[0] == 2


@lemma(gen={"x": (0.3, 0.7)})
def int_array_truncates_symbolic(x: float):
    assume(x > 0.25)
    assume(x < 0.75)
    w = np.array([1, 2])
    w[0] = x
    assert w[0] == 0


@lemma
def int_inplace_float_raises(n: int):
    w = np.array([1, 2])
    ok = False
    try:
        w += 1.5
    except TypeError:
        ok = True
    assert ok
    ok = False
    try:
        w /= 2
    except TypeError:
        ok = True
    assert ok
    w //= 2
    assert w[0] == 0 and w[1] == 1
    w += 3
    assert w[0] == 3


@lemma
def int_div(n: int):
    w = np.array([1, 2, -3])
    d = w / 2
    assert eq(d[0], 0.5) and eq(d[2], -1.5)
    f = w // 2
    assert f[0] == 0 and f[2] == -2
    r = w % 2
    assert r[2] == 1
    assert d.dtype == np.dtype("float64")
    assert f.dtype == np.dtype("int64")


@lemma
def bool_array_assign(x: float):
    b = np.array([True, False])
    b[1] = 5
    assert b[1] == True
    assert b.dtype == np.dtype("bool")
    b[0] = 0.0
    assert b[0] == False
    s = b.sum()
    assert s == 1


@lemma
def astype_int_trunc(x: float):
    a = np.array([1.7, -1.7, 2.0])
    i = a.astype(int)
    assert i[0] == 1 and i[1] == -1 and i[2] == 2


@lemma
def eq_shape_mismatch(x: float):
    a = np.array([x, x])
    b = np.array([x, x, x])
    ok = False
    try:
        r = a == b
    except ValueError:
        ok = True
    assert ok
    ok = False
    try:
        r = a < b
    except ValueError:
        ok = True
    assert ok
    assert not np.array_equal(a, b)


@lemma
def broadcasting(a: float, b: float, c: float):
    m = np.array([[a, b, c], [c, b, a]])
    r = m + np.array([1.0])
    assert r.shape == (2, 3) and eq(r[1, 2], a + 1)
    col = np.array([[a], [b]])
    row = np.array([a, b, c])
    o = col + row
    assert o.shape == (2, 3) and eq(o[1, 2], b + c)
    v3 = np.array([a, b, c])
    c3 = np.array([[a], [b], [c]])
    o2 = c3 * v3
    assert o2.shape == (3, 3) and eq(o2[2, 0], c * a)
    ok = False
    try:
        m + np.array([a, b])
    except ValueError:
        ok = True
    assert ok


@lemma
def inplace_broadcast(a: float, b: float):
    m = np.array([[a, b], [b, a]])
    m += np.array([1.0, 2.0])
    assert eq(m[1, 1], a + 2)
    v = np.array([a, b])
    ok = False
    try:
        v += m
    except ValueError:
        ok = True
    assert ok
    v2 = np.array([a])
    ok = False
    try:
        v2 += np.array([a, b])
    except ValueError:
        ok = True
    assert ok


@lemma
def setitem_broadcast(a: float, b: float, c: float):
    m = np.zeros((2, 3))
    ok = False
    try:
        m[:, :] = np.array([a, b])
    except ValueError:
        ok = True
    assert ok
    m[:, :] = np.array([[a], [b]])
    assert eq(m[0, 2], a) and eq(m[1, 0], b)
    m[:] = np.array([a, b, c])
    assert eq(m[1, 2], c) and eq(m[1, 0], a)
    m[0] = [c, b, a]
    assert eq(m[0, 0], c)
    ok = False
    try:
        m[0] = [a, b]
    except ValueError:
        ok = True
    assert ok


@lemma
def fancy_and_mask_copy(a: float, b: float, c: float, x: float):
    v = np.array([a, b, c])
    f = v[[0, 2]]
    f[0] = x
    assert eq(v[0], a)
    k = v[np.array([True, False, True])]
    assert k.shape == (2,) and eq(k[1], c)
    k[0] = x
    assert eq(v[0], a)
    k2 = v[[True, False, True]]
    assert k2.shape == (2,) and eq(k2[1], c)
    ok = False
    try:
        v[np.array([True, False])]
    except IndexError:
        ok = True
    assert ok
    v[[True, False, True]] = x
    assert eq(v[0], x) and eq(v[1], b) and eq(v[2], x)


@lemma
def repeat_zeros_ones(x: float):
    r = np.repeat(x, 3)
    assert r.shape == (3,) and eq(r[2], x)
    o = np.ones(2, dtype=int)
    assert o.dtype == np.dtype("int64")
    z = np.zeros(2, dtype=int)
    assert z.dtype == np.dtype("int64")
    zf = np.zeros((2, 2))
    assert zf.dtype == np.dtype("float64") and zf.shape == (2, 2)
    zl = np.zeros_like(np.array([1, 2]))
    assert zl.dtype == np.dtype("int64")
    e = np.zeros(0, dtype=int)
    assert e.dtype == np.dtype("int64")
    zb = np.zeros(2, dtype=bool)
    assert zb.dtype == np.dtype("bool") and zb[0] == False
    em = np.empty(2)
    assert em.shape == (2,)


@lemma
def unary_neg_abs(a: float):
    i = np.array([1, -2])
    ai = abs(i)
    assert ai[1] == 2 and ai.dtype == np.dtype("int64")
    ni = -i
    assert ni[0] == -1 and ni.dtype == np.dtype("int64")


@lemma
def matmul_scalar(a: float, b: float):
    u = np.array([a, b])
    ok = False
    try:
        u @ 2.0
    except ValueError:
        ok = True
    assert ok


@lemma
def list_iadd_array(a: float, b: float):
    lst = [a]
    l2 = lst
    lst += np.array([a, b])
    assert lst is not l2 and len(l2) == 1 and lst.shape == (2,) and eq(lst[1], a + b), "list += array is ndarray.__radd__"
    q = [a, b] + np.array([a, b])
    assert q.shape == (2,) and eq(q[1], 2 * b)


@lemma
def promotion_of_mixed_elements(n: int):
    a = np.array([1, 2.5])
    assert a.dtype == np.dtype("float64")
    d = np.array([1, None])
    assert d.dtype == np.dtype("O")
    i = np.array([1, 2]) + 1.5
    assert i.dtype == np.dtype("float64") and eq(i[0], 2.5)
    b = np.array([True, False]) + 1
    assert b.dtype == np.dtype("int64") and b[0] == 2
    bb = np.array([True, True]) + np.array([True, False])
    assert bb.dtype == np.dtype("bool") and bb[0] == True, "bool + bool is logical or, not 2"
    bm = np.array([True, True]) * np.array([True, False])
    assert bm.dtype == np.dtype("bool") and bm[1] == False
    m = np.array([True, False]) * np.array([2.5, 3.5])
    assert m.dtype == np.dtype("float64") and eq(m[0], 2.5) and eq(m[1], 0.0)
    ok = False
    try:
        np.array([True, True]) - np.array([True, False])
    except TypeError:
        ok = True
    assert ok
    ok = False
    try:
        np.array([2, 3]) ** -1
    except ValueError:
        ok = True
    assert ok
    p = np.array([2, 3]) ** 2
    assert p.dtype == np.dtype("int64") and p[1] == 9
    q = np.array([2.0, 4.0]) ** -1
    assert eq(q[1], 0.25)


@lemma
def zero_d_and_len(x: float):
    a = np.array(x)
    assert a.shape == () and a.ndim == 0
    ok = False
    try:
        len(a)
    except TypeError:
        ok = True
    assert ok
    s = np.float64(x)
    assert isinstance(s, float)
    v = np.array([x, x])[0]
    assert isinstance(v, float)
    assert not bool(np.array([0.0]))


@lemma
def array_with_dtype_int(x: float):
    a = np.array([1.5, -2.5], dtype=int)
    assert a[0] == 1 and a[1] == -2 and a.dtype == np.dtype("int64")
    b = np.array([True, False], dtype=int)
    assert b.dtype == np.dtype("int64") and b[0] == 1
    c = np.array([1, 2], dtype=float)
    assert c.dtype == np.dtype("float64")
    d = np.array([True, False]).astype(int)
    assert d.dtype == np.dtype("int64") and d[0] + d[0] == 2
    e = np.asarray([1, 2], dtype=float)
    assert e.dtype == np.dtype("float64")
    f = np.asarray(c, dtype=int)
    assert f.dtype == np.dtype("int64") and f is not c


@lemma
def object_arrays(a: float):
    o = np.array([1, None, 2.5], dtype=object)
    assert o.dtype == np.dtype("O") and o[1] is None
    o[0] = "x"
    assert o[0] == "x"
    p = np.array([1, 2], dtype=object)
    assert p.dtype == np.dtype("O")
    p[0] = 1.5
    assert eq(p[0], 1.5), "no truncation in an object array"
    s = p[0:1]
    s[0] = None
    assert p[0] is None


@lemma
def nd_floordiv_mod(n: int):
    a = np.array([-7, 7, -7])
    b = np.array([2, -2, -2])
    q = a // b
    r = a % b
    assert q[0] == -4 and q[1] == -4 and q[2] == 3
    assert r[0] == 1 and r[1] == -1 and r[2] == -1
    f = np.array([-7.5, 7.5]) // 2
    assert eq(f[0], -4.0) and eq(f[1], 3.0) and f.dtype == np.dtype("float64")
    g = np.array([-7.5, 7.5]) % 2
    assert eq(g[0], 0.5) and eq(g[1], 1.5)
    h = np.array([1, 2]) / np.array([2, 4])
    assert h.dtype == np.dtype("float64") and eq(h[0], 0.5)
