"""Self-test of the engine's model of classes (pyvc/attrs.py getattr / setattr / delattr, pyvc/symex.py mro / instantiate):
a class attribute is ONE object shared by all instances, shadowing by instance attributes and `del` falling back, properties
with setter and deleter, read-only properties, data / non-data descriptors defined in the class body, __getattr__,
__setattr__ / __delattr__, __slots__, C3 method resolution order with cooperative super() (also in classmethods),
__init_subclass__ with class keywords, __new__, methods patched on instances and classes, isinstance / issubclass with tuples.

Each lemma states what CPython does (green natively = the statement is true of CPython) and is then run symbolically
(green = the engine's model agrees).  Negated statements (`is not`, `raises(...)`) refute plausible wrong models.

  cp tools/selftest/classes_attributes.py contracts/T00_classes_attributes.py
  python3-vt -m pyvc.run contracts/T00_classes_attributes.py
  PYTHONPATH=/repo:contracts /venv/bin/python contracts/native_runner.py cross contracts/T00_classes_attributes.py --n 20
  rm contracts/T00_classes_attributes.py
"""
import functools

from spec import *


def raises(fn, exc):
    try:
        fn()
    except exc:
        return True
    except Exception:
        return False
    return False


class Shared:
    items = []
    count = 0

    def add(self, v):
        self.items.append(v)
        self.count += 1


@lemma
def class_attribute_shared_and_shadowed(x: int):
    n0 = len(Shared.items)
    a = Shared()
    b = Shared()
    a.add(x)
    assert b.items is a.items and len(b.items) == n0 + 1 and Shared.items[-1] == x, "mutable class attribute is shared"
    assert a.count == 1 and b.count == 0 and Shared.count == 0, "augmented assignment creates an instance attribute"
    assert "count" in a.__dict__ and "count" not in b.__dict__ and "items" not in a.__dict__
    del a.count
    assert a.count == 0, "del falls back to the class attribute"
    assert raises(lambda: delattr(a, "count"), AttributeError)
    Shared.items.pop()


class P:
    def __init__(self, v):
        self._v = v
        self.log = []

    @property
    def v(self):
        self.log.append("get")
        return self._v

    @v.setter
    def v(self, x):
        self.log.append("set")
        self._v = x * 2

    @v.deleter
    def v(self):
        self.log.append("del")
        self._v = None

    @property
    def ro(self):
        return 1

    @staticmethod
    def sm(a):
        return a + 1

    @classmethod
    def cm(cls, a):
        return cls(a)


class Q(P):
    @property
    def v(self):
        return 100


@lemma
def properties(x: int):
    p = P(x)
    assert p.v == x
    p.v = 3
    assert p._v == 6 and p.log == ["get", "set"]
    p.v += 1
    assert p._v == 14
    del p.v
    assert p._v is None and p.log[-1] == "del"
    assert raises(lambda: setattr(p, "ro", 2), AttributeError), "read-only property"
    p.__dict__["ro"] = 5
    assert p.ro == 1, "data descriptor wins over the instance dict"
    assert P.sm(x) == x + 1 and p.sm(x) == x + 1
    q = Q.cm(x)
    assert isinstance(q, Q) and q.v == 100 and q._v == x
    assert raises(lambda: setattr(q, "v", 2), AttributeError), "overriding property without setter is read-only"


class NonData:
    def __get__(self, obj, typ=None):
        if obj is None:
            return "cls"
        return "nd"


class Data:
    def __get__(self, obj, typ=None):
        return obj.__dict__.get("_d", "unset")

    def __set__(self, obj, v):
        obj.__dict__["_d"] = (v, "via set")


class H:
    nd = NonData()
    d = Data()


@lemma
def descriptors(x: int):
    h = H()
    assert h.nd == "nd" and H.nd == "cls"
    h.nd = x
    assert h.nd == x, "instance dict wins over non-data descriptor"
    assert h.d == "unset"
    h.d = x
    assert h.d == (x, "via set") and "d" not in h.__dict__
    h.__dict__["d"] = 1
    assert h.d == (x, "via set"), "data descriptor wins over instance dict"


class GA:
    def __init__(self):
        self.real = 1

    def __getattr__(self, name):
        if name.startswith("z"):
            raise AttributeError(name)
        return "fallback:" + name


class SA:
    def __init__(self):
        object.__setattr__(self, "log", [])
        self.a = 1

    def __setattr__(self, name, v):
        self.log.append(name)
        object.__setattr__(self, name, v)

    def __delattr__(self, name):
        self.log.append("del " + name)
        object.__delattr__(self, name)


@lemma
def getattr_hooks(x: int):
    g = GA()
    assert g.real == 1 and g.other == "fallback:other"
    assert getattr(g, "zz", x) == x and not hasattr(g, "zz") and hasattr(g, "yy")
    assert raises(lambda: g.zz, AttributeError)
    s = SA()
    s.b = x
    s.a += 1
    del s.b
    assert s.log == ["a", "b", "a", "del b"] and s.a == 2 and not hasattr(s, "b")


class Slotted:
    __slots__ = ("a", "b")

    def __init__(self):
        self.a = 1


@lemma
def slots(x: int):
    s = Slotted()
    s.b = x
    assert s.b == x
    assert raises(lambda: setattr(s, "c", 1), AttributeError), "no __dict__"
    t = Slotted()
    assert raises(lambda: t.b, AttributeError)
    assert not hasattr(t, "__dict__")


class A:
    def who(self):
        return ["A"]

    @classmethod
    def make(cls):
        return "A.make(%s)" % cls.__name__


class B(A):
    def who(self):
        return ["B"] + super().who()

    @classmethod
    def make(cls):
        return "B>" + super().make()


class C(A):
    def who(self):
        return ["C"] + super().who()


class D(B, C):
    def who(self):
        return ["D"] + super().who()


class E(C, B):
    pass


@lemma
def mro_and_super(x: int):
    assert D().who() == ["D", "B", "C", "A"], "cooperative super follows the MRO of the instance"
    assert E().who() == ["C", "B", "A"]
    assert B().who() == ["B", "A"]
    assert D.make() == "B>A.make(D)"
    assert issubclass(D, (int, C)) and not issubclass(C, B) and isinstance(D(), A) and not isinstance(A(), (B, C))
    assert isinstance(True, int) and not isinstance(1, bool) and issubclass(bool, int)
    assert type(D()) is D and type(D()) is not B


class Reg:
    def __init_subclass__(cls, tag=None, **kw):
        super().__init_subclass__(**kw)
        cls.tag = tag


class R1(Reg, tag="one"):
    pass


class R2(R1):
    pass


@lemma
def init_subclass(x: int):
    assert R1.tag == "one" and R2.tag is None


class WithInit:
    def __init__(self, a, b=2):
        self.a = a
        self.b = b


class NoInitChild(WithInit):
    pass


class NewCls:
    made = 0

    def __new__(cls, v):
        o = super().__new__(cls)
        o.fromnew = v
        return o

    def __init__(self, v):
        self.frominit = v + 1


@lemma
def construction(x: int):
    c = NoInitChild(x)
    assert c.a == x and c.b == 2
    assert raises(lambda: NoInitChild(), TypeError)
    n = NewCls(x)
    assert n.fromnew == x and n.frominit == x + 1


class Meth:
    def f(self):
        return 1


@lemma
def methods_bound_and_patched(x: int):
    m = Meth()
    m.f = lambda: x
    assert m.f() == x, "instance attribute shadows the method; it is not bound"
    m2 = Meth()
    assert m2.f() == 1
    Meth.g = lambda self: 7
    assert m2.g() == 7
    assert Meth.f(m2) == 1
    assert m.f is not m2.f


class WithInit_2:
    def __init__(self, a, b=2):
        self.a = a
        self.b = b


class NoInitChild_2(WithInit_2):
    pass


class NewCls_2:
    def __new__(cls, v):
        o = super().__new__(cls)
        o.fromnew = v
        return o

    def __init__(self, v):
        self.frominit = v + 1


class Meth_2:
    def f(self):
        return 1


@lemma
def p40(x: int):
    c = NoInitChild_2(x)
    assert c.a == x and c.b == 2
    assert raises(lambda: NoInitChild_2(), TypeError)


@lemma
def p41(x: int):
    n = NewCls_2(x)
    assert n.fromnew == x and n.frominit == x + 1


@lemma
def p42(x: int):
    m = Meth_2()
    m.f = lambda: x
    assert m.f() == x, "instance attribute shadows the method; it is not bound"
    m2 = Meth_2()
    assert m2.f() == 1
    Meth_2.g = lambda self: 7
    assert m2.g() == 7
    assert Meth_2.f(m2) == 1


class A_2:
    def who(self):
        return ["A_2"]

    @classmethod
    def make(cls):
        return "A_2.make(%s)" % cls.__name__


class B_2(A_2):
    def who(self):
        return ["B_2"] + super().who()

    @classmethod
    def make(cls):
        return "B_2>" + super().make()


class C_2(A_2):
    def who(self):
        return ["C_2"] + super().who()


class D_2(B_2, C_2):
    def who(self):
        return ["D_2"] + super().who()


class E_2(C_2, B_2):
    pass


class O:
    pass


class F1(O):
    n = "F1"


class E1(O):
    n = "E1"


class D1(O):
    n = "D1"


class C1(D1, F1):
    pass


class B1(D1, E1):
    pass


class A1(B1, C1):
    pass


@lemma
def p43(x: int):
    assert D_2().who() == ["D_2", "B_2", "C_2", "A_2"]
    assert E_2().who() == ["C_2", "B_2", "A_2"]
    assert B_2().who() == ["B_2", "A_2"]
    assert D_2.make() == "B_2>A_2.make(D_2)"
    assert issubclass(D_2, (int, C_2)) and not issubclass(C_2, B_2) and isinstance(D_2(), A_2) and not isinstance(A_2(), (B_2, C_2))
    assert isinstance(True, int) and not isinstance(1, bool) and issubclass(bool, int)
    assert type(D_2()) is D_2 and type(D_2()) is not B_2


class K1(O):
    tag = "K1"


class K2(O):
    tag = "K2"


class K3(O):
    tag = "K3"


class M1(K1, K2):
    pass


class M2(K1, K3):
    tag = "M2"


class Z(M1, M2):
    pass


class DD(O):
    t = "D_2"


class EE(O):
    t = "E_2"


class FF(O):
    t = "F"


class BB(DD, EE):
    pass


class CC(DD, FF):
    t = "C_2"


class AA(BB, CC):
    pass


@lemma
def p45(x: int):
    # C3 for AA(BB, CC), BB(DD, EE), CC(DD, FF): AA BB CC DD EE FF O  -> t is found on CC before EE
    assert AA.t == "C_2" and AA().t == "C_2"
    assert Z.tag == "M2"
