"""Self-test of the engine's model of numpy memory sharing (pyvc/npmodel.py alloc_view / sync_views, pyvc/ops.py in-place
arithmetic).  Each lemma states what CPython + numpy do; run natively it checks the statement against real numpy, run
symbolically it checks the engine's model against the same statement.  Both green => the model agrees on these cases.

  cp tools/selftest/numpy_views.py contracts/T00_views.py
  python3-vt -m pyvc.run contracts/T00_views.py
  PYTHONPATH=/repo:contracts /venv/bin/python contracts/native_runner.py cross contracts/T00_views.py --n 50
  rm contracts/T00_views.py
"""
import copy

import numpy as np

from spec import *


class Box:
    pass


@lemma
def inplace_arithmetic_is_seen_through_every_reference(a: float, b: float, c: float):
    z = np.zeros(2)
    h = new(Box, x=z, y=z)
    h.x += np.array([a, b])
    assert h.x is h.y and eq(h.y[0], a) and eq(h.y[1], b), "x += v updates the one array both attributes name"
    h.x = h.x + np.array([c, c])
    assert h.x is not h.y and eq(h.y[0], a) and eq(h.x[0], a + c), "x = x + v makes a new array"
    w = z
    w *= 2.0
    assert eq(h.y[1], 2 * b)


@lemma
def writes_go_through_slices_rows_transposes_and_reshapes(a: float, b: float, c: float, d: float, x: float, y: float):
    m = np.array([[a, b], [c, d]])
    row = m[1]
    row[0] = x
    assert eq(m[1, 0], x), "a row is a view: writing it writes the matrix"
    m[1, 1] = y
    assert eq(row[1], y), "and writing the matrix shows in the row"
    t = m.T
    t[0, 1] = a + 1
    assert eq(m[1, 0], a + 1) and eq(row[0], a + 1), "transpose is a view, seen by the other views too"
    col = m[:, 0]
    col += 1.0
    assert eq(m[0, 0], a + 1) and eq(m[1, 0], a + 2) and eq(t[0, 1], a + 2)
    f = m.reshape(4)
    f[3] = b
    assert eq(m[1, 1], b) and eq(row[1], b)
    r = m.ravel()
    r[0] = c
    assert eq(m[0, 0], c)
    part = m[0:1]
    sub = part[0]
    sub[1] = d + 5
    assert eq(m[0, 1], d + 5), "a view of a view writes the root"


@lemma
def copies_do_not_share(a: float, b: float, x: float):
    m = np.array([[a, b], [b, a]])
    for cp in (m.copy(), np.array(m), m.flatten(), copy.deepcopy(m), m[[0, 1]], copy.deepcopy(m[0])):
        cp[0] = x
    assert eq(m[0, 0], a) and eq(m[0, 1], b), "copy / np.array / flatten / deepcopy / fancy indexing do not share memory"
    v = m[0]
    k = copy.copy(v)
    k[0] = x
    assert eq(m[0, 0], a)
    for rw in m:
        rw[0] = x
    assert eq(m[0, 0], x) and eq(m[1, 0], x), "iteration yields views of the rows"
