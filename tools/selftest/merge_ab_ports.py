"""Self-test of the places where the audits A (containers / iterators / closures) and B (functions / classes / protocols)
met: nonlocal and unbound variables on top of the live closure environments (symex.closure_lookup / nonlocal_set), walrus
targets surviving a comprehension, iterator objects emptied by their consumers (for / break / next / list), path forks between
the definition of a closure and its calls.

  cp tools/selftest/merge_ab_ports.py contracts/T00_merge_ab_ports.py
  python3-vt -m pyvc.run contracts/T00_merge_ab_ports.py
  PYTHONPATH=/repo:contracts /venv/bin/python contracts/native_runner.py cross contracts/T00_merge_ab_ports.py --n 20
  rm contracts/T00_merge_ab_ports.py
"""
from spec import *


def raises(fn, exc):
    try:
        fn()
    except exc:
        return True
    except Exception:
        return False
    return False


def make_counter(start):
    n = start

    def bump(by=1):
        nonlocal n
        n += by
        return n

    def peek():
        return n

    return bump, peek


@lemma
def nonlocal_after_the_enclosing_call_returned(x: int, b: bool):
    bump, peek = make_counter(x)
    bump2, peek2 = make_counter(100)
    assert bump() == x + 1 and bump(2) == x + 3 and peek() == x + 3
    assert peek2() == 100, "every activation has its own variable"
    if b:
        bump(10)
    else:
        bump2(1)
    # the fork above must not leak a write of one path into the other
    assert peek() == (x + 13 if b else x + 3) and peek2() == (100 if b else 101)


def outer_two_levels(x):
    total = x

    def mid():
        def inner():
            nonlocal total
            total = total * 2
            return total

        return inner

    f = mid()
    first = f()
    return first, total


@lemma
def nonlocal_through_two_levels(x: int):
    assert outer_two_levels(x) == (2 * x, 2 * x)


def free_before_binding(flag):
    def g():
        return late

    if flag:
        late = 1
        return g()
    r = g()  # NameError: free variable not yet bound - never the global of the same name
    late = 2
    return r


late = "global"


@lemma
def free_variable_unbound_is_name_error(x: int):
    assert free_before_binding(True) == 1
    assert raises(lambda: free_before_binding(False), NameError)


def local_shadows_global_before_binding():
    v = late  # UnboundLocalError: `late` is assigned below, so it is local in the whole body
    late = 3
    return v


@lemma
def unbound_local_never_falls_through(x: int):
    assert raises(local_shadows_global_before_binding, UnboundLocalError)


@lemma
def walrus_survives_a_comprehension_and_targets_do_not(x: int):
    i = "outer"
    squares = [(last := i * i) for i in range(3)]
    assert squares == [0, 1, 4] and last == 4 and i == "outer"
    hits = [y for v in (x, x + 1) if (y := v + 1) > x]
    assert hits == [x + 1, x + 2] and y == x + 2
    nested = [[(deep := a + b2) for a in range(2)] for b2 in range(2)]
    assert nested == [[0, 1], [1, 2]] and deep == 2


def gen3(x):
    yield x
    yield x + 1
    yield x + 2


@lemma
def consumers_empty_an_iterator(x: int):
    g = gen3(x)
    for v in g:
        break
    assert v == x and next(g) == x + 1 and list(g) == [x + 2]
    assert next(g, "end") == "end"
    it = iter([1, 2, 3])
    assert list(it) == [1, 2, 3] and next(it, None) is None, "a complete consumer leaves nothing behind"
    z = zip(iter([1, 2]), [3, 4])
    assert list(z) == [(1, 3), (2, 4)]
    m = map(lambda q: q + x, iter([1, 2]))
    assert list(m) == [1 + x, 2 + x]
    total = 0
    e = enumerate(gen3(x))
    for k, v in e:
        total += k * v
    assert total == (x + 1) + 2 * (x + 2)
    assert raises(lambda: next([1, 2]), TypeError) and raises(lambda: next({1: 2}.keys()), TypeError)


class Bag:
    def __init__(self, items):
        self.items = items

    def __iter__(self):
        for v in self.items:
            yield v


@lemma
def generator_as_dunder_iter(x: int):
    b = Bag([x, 2, 3])
    assert list(b) == [x, 2, 3] and [v for v in b] == [x, 2, 3] and sum(b) == x + 5
    out = []
    for v in b:
        out.append(v)
    assert out == [x, 2, 3]
