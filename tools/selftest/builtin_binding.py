"""Self-test of Interp.call_builtin (pyvc/symex.py): an argument / keyword that a modelled builtin does not know makes
python fail to BIND the model function (TypeError raised by the call machinery in the model's own top frame).  That is
"outside the modelled subset" -> pyvc.values.Unsupported (lemma undecided), never an engine crash; a TypeError raised
deeper inside a model (a bug of the model) still propagates.

  python3-vt tools/selftest/builtin_binding.py          (from /verif; prints OK, exit 0)
"""
import os
import sys

sys.path.insert(0, os.path.join(os.path.dirname(os.path.abspath(__file__)), "..", ".."))
from pyvc import symex  # noqa: E402
from pyvc.values import Builtin, Unsupported  # noqa: E402

Interp = [c for c in vars(symex).values() if isinstance(c, type) and "call_builtin" in vars(c)][0]


class Dummy:
    _BINDING_ERROR = Interp._BINDING_ERROR


def wrap(fn):  # the shape of every model wrapper (npmodel.simple / reg, attrs.simple, speclib.reg, bytesmodel.reg)
    def f(I, st, a, k):
        yield st, fn(I, st, *a, **k)

    return Builtin("selftest", f)


def outcome(builtin, a, k):
    try:
        return list(Interp.call_builtin(Dummy(), builtin, a, k, None))
    except Exception as e:  # noqa: BLE001
        return type(e).__name__


def deeper(I, st, x):
    return (lambda: 0)(5)  # a wrong call INSIDE a model


def direct(I, st, a, k):
    yield st, float(None)  # TypeError of a C function in the top frame: not a binding failure


CASES = [
    (wrap(lambda I, st: 1), [], {}, [(None, 1)]),
    (wrap(lambda I, st: 1), [], {"order": "K"}, "Unsupported"),  # ndarray.ravel(order="K") on a model without `order`
    (wrap(lambda I, st: 1), [3], {}, "Unsupported"),
    (wrap(lambda I, st, x: 1), [], {}, "Unsupported"),
    (wrap(lambda I, st, x: 1), [1], {"x": 2}, "Unsupported"),
    (wrap(lambda I, st, *, key: 1), [], {}, "Unsupported"),
    (wrap(lambda I, st, x: 1 + None), [1], {}, "TypeError"),
    (wrap(lambda I, st, x: float(None)), [1], {}, "TypeError"),
    (wrap(deeper), [1], {}, "TypeError"),
    (Builtin("selftest", direct), [], {}, "TypeError"),
]
bad = [(i, outcome(b, a, k), want) for i, (b, a, k, want) in enumerate(CASES) if outcome(b, a, k) != want]
if bad:
    print("FAIL", bad)
    sys.exit(1)
assert issubclass(Unsupported, Exception)
print("OK %d cases" % len(CASES))
