"""Self-test of the numpy functions the engine models (pyvc/npmodel.py make_module): any / all on empty / None / scalars,
sum / mean, where(cond), array_equal, interp (clamping, jumps), arange, isnan, tolist, dot / @ / norm, sqrt / abs / rint.

  cp tools/selftest/numpy_functions.py contracts/T00_numpy_functions.py
  python3-vt -m pyvc.run contracts/T00_numpy_functions.py
  PYTHONPATH=/repo:contracts /venv/bin/python contracts/native_runner.py cross contracts/T00_numpy_functions.py --n 30
  rm contracts/T00_numpy_functions.py
"""
import copy
import math

import numpy as np

from spec import *


@lemma
def sum_mean_noaxis(a: float, b: float, c: float, d: float):
    m = np.array([[a, b], [c, d]])
    assert eq(np.mean(m), (a + b + c + d) / 4)
    assert eq(m.sum(), a + b + c + d)
    assert eq(np.sum([]), 0.0)
    bs = np.array([True, True, False]).sum()
    assert bs == 2
    assert eq(np.sum([a, b]), a + b)
    im = np.mean(np.array([1, 2]))
    assert eq(im, 1.5)


@lemma
def where1(n: int):
    (idx,) = np.where(np.array([False, True, True]))
    assert idx.shape == (2,) and idx[0] == 1 and idx[1] == 2
    (e,) = np.where(np.array([False]))
    assert e.shape == (0,)
    assert e.dtype == np.dtype("int64")


@lemma
def array_equal_forms(a: float, b: float):
    v = np.array([a, b])
    assert np.array_equal(v, [a, b])
    assert not np.array_equal(v, [a, b, b])
    assert not np.array_equal(v, np.array([[a, b]]))
    assert np.array_equal(np.array([1, 2]), np.array([1.0, 2.0]))
    assert math.isclose(1.0, 1.0 + 1e-10) and not math.isclose(1.0, 1.0 + 1e-8)
    assert not math.isclose(1e-12, 0.0), "abs_tol = 0 by default"
    assert math.isclose(1e-12, 0.0, abs_tol=1e-9)
    assert math.isclose(100.0, 110.0, rel_tol=0.095) and math.isclose(110.0, 100.0, rel_tol=0.095), "math.isclose is symmetric"


@lemma
def interp_clamp(x: float):
    xp = [0.0, 1.0, 3.0]
    fp = [10.0, 20.0, 0.0]
    y = np.interp(x, xp, fp)
    assert implies(x <= 0, eq(y, 10.0))
    assert implies(x >= 3, eq(y, 0.0))
    assert implies(0 <= x and x <= 1, eq(y, 10.0 + 10.0 * x))
    assert implies(1 <= x and x <= 3, eq(y, 20.0 - 10.0 * (x - 1)))
    j = np.interp(x, [0.0, 1.0, 1.0, 2.0], [0.0, 1.0, 5.0, 6.0])
    assert implies(x == 1.0, eq(j, 5.0))
    yi = np.interp(1, [0, 2], [0, 3])
    assert eq(yi, 1.5) and isinstance(yi, float)


@lemma
def arange_forms(n: int):
    a4 = np.arange(3)
    assert a4.dtype == np.dtype("int64") and a4.shape == (3,) and a4[2] == 2
    a5 = np.arange(1, 4)
    assert a5.shape == (3,) and a5[0] == 1
    a6 = np.arange(3, dtype=float)
    assert a6.dtype == np.dtype("float64")
    a7 = np.arange(-2)
    assert a7.shape == (0,)


@lemma
def isnan_forms(x: float):
    assert not np.isnan(x)
    v = np.array([np.nan, x])
    n = np.isnan(v)
    assert n[0] and not n[1]
    assert not (v == v)[0], "nan is not equal to itself elementwise"
    assert (v != v)[0]
    assert not (v < 1.0)[0] and not (v >= 1.0)[0]
    assert not np.array_equal(v, v)


@lemma
def tolist_scalars(a: float):
    v = np.array([a, 2.0])
    l = v.tolist()
    assert isinstance(l, list) and isinstance(l[0], float)
    i = np.array([1, 2]).tolist()
    assert isinstance(i[0], int)
    m = np.array([[1, 2], [3, 4]]).tolist()
    assert m[1][0] == 3 and isinstance(m[1], list)


@lemma
def dot_forms(a: float, b: float, c: float, d: float):
    u = np.array([a, b])
    v = np.array([c, d])
    assert eq(np.dot(u, v), a * c + b * d)
    assert eq(u @ v, a * c + b * d)
    m = np.array([[a, b], [c, d]])
    mv = m @ u
    assert eq(mv[1], c * a + d * b)
    vm = u @ m
    assert eq(vm[1], a * b + b * d)
    mm = m @ m
    assert eq(mm[0, 1], a * b + b * d)
    s = np.dot(2.0, u)
    assert eq(s[1], 2 * b)
    assert eq(u.dot(v), a * c + b * d)
    assert eq(np.linalg.norm(np.array([3.0, 4.0])), 5.0)
    assert eq(np.linalg.norm(np.array([[3.0, 0.0], [0.0, 4.0]])), 5.0)


@lemma
def sqrt_abs(a: float):
    assume(a >= 0)
    s = np.sqrt(np.array([a * a, 4.0]))
    assert eq(s[0], a) and eq(s[1], 2.0)
    si = np.sqrt(np.array([4, 9]))
    assert si.dtype == np.dtype("float64") and eq(si[1], 3.0)
    assert eq(np.sqrt(4), 2.0)
    ab = np.abs(np.array([-a, 1.0]))
    assert eq(ab[0], a)
    r = np.rint(np.array([0.5, 1.5, -0.5]))
    assert eq(r[0], 0.0) and eq(r[1], 2.0) and eq(r[2], 0.0)


@lemma
def any_all_edge(x: float):
    assert np.all([]) and not np.any([])
    assert np.all(np.array([]))
    assert not np.any(None)
    assert not np.all(None)
    assert np.any(x) == (x != 0)
    assert np.all([[1, 0], [1, 1]]) == False
    assert np.any([[0, 0], [0, 1]])
    e = np.array([])
    assert e.all() and not e.any()


@lemma
def isfinite_forms(x: float):
    assert np.isfinite(x)
    assert not np.isfinite(np.nan)
    assert not np.isfinite(np.inf)
    r = np.isfinite(np.array([x, np.nan]))
    assert r.shape == (2,) and r[0] and not r[1]
