"""Self-test of the engine's model of which numpy operations return VIEWS and which return COPIES (pyvc/npmodel.py:
alloc_view / sync_views / view_possible, pyvc/values.py NdE.c_contiguous): ravel / reshape of non-contiguous arrays copy,
strided and negative-step slices, `...`, .flat, .fill, views of views.  Same principle as numpy_views.py.

  cp tools/selftest/numpy_layout.py contracts/T00_numpy_layout.py
  python3-vt -m pyvc.run contracts/T00_numpy_layout.py
  PYTHONPATH=/repo:contracts /venv/bin/python contracts/native_runner.py cross contracts/T00_numpy_layout.py --n 30
  rm contracts/T00_numpy_layout.py
"""
import copy
import math

import numpy as np

from spec import *


@lemma
def ravel_of_transpose_is_a_copy(a: float, b: float, c: float, d: float, x: float):
    m = np.array([[a, b], [c, d]])
    r = m.T.ravel()
    assert eq(r[1], c)
    r[1] = x
    assert eq(m[1, 0], c), "ravel of a non-contiguous array copies"
    r2 = m.ravel()
    r2[1] = x
    assert eq(m[0, 1], x), "ravel of a contiguous array is a view"


@lemma
def reshape_of_transpose_is_a_copy(a: float, b: float, c: float, d: float, x: float):
    m = np.array([[a, b], [c, d]])
    r = m.T.reshape(4)
    r[1] = x
    assert eq(m[1, 0], c), "reshape of a transposed array copies"
    col = m[:, 0]
    q = col.reshape(2, 1)
    q[1, 0] = x
    assert eq(m[1, 0], x), "reshape of a strided 1-d view is a view"


@lemma
def reshape_strided_2d(a: float, b: float, x: float):
    m = np.array([[a, b, a, b], [b, a, b, a]])
    s = m[:, ::2]
    f = s.reshape(4)
    f[1] = x
    assert eq(m[0, 2], x), "mergeable strides: a view"
    s2 = m[:, 0:2]
    f2 = s2.reshape(4)
    f2[0] = x + 1
    assert eq(m[0, 0], a), "not mergeable: a copy"
    f3 = s2.ravel()
    f3[0] = x + 1
    assert eq(m[0, 0], a)
    f4 = s.ravel()
    f4[0] = x + 1
    assert eq(m[0, 0], a), "ravel copies whenever the array is not C-contiguous"


@lemma
def slices_with_steps(a: float, b: float, c: float, d: float, x: float):
    v = np.array([a, b, c, d])
    r = v[::-1]
    r[0] = x
    assert eq(v[3], x)
    e = v[1::2]
    e[1] = x + 1
    assert eq(v[3], x + 1) and eq(r[0], x + 1)
    n = v[-3:-1]
    assert n.shape == (2,) and eq(n[0], b)
    n[:] = 0.0
    assert eq(v[1], 0.0) and eq(v[2], 0.0) and eq(r[1], 0.0)
    v[...] = x
    assert eq(e[0], x) and eq(n[1], x)


@lemma
def flat_and_fill(a: float, b: float, x: float):
    m = np.array([[a, b], [b, a]])
    m.flat[1] = x
    assert eq(m[0, 1], x)
    t = m.T
    t.flat[1] = x + 1
    assert eq(m[1, 0], x + 1)
    m.fill(x)
    assert eq(t[1, 1], x)
    assert len(m.flat) == 4


@lemma
def view_chain_rows_of_transpose(a: float, b: float, c: float, d: float, x: float):
    m = np.array([[a, b], [c, d]])
    s = m[0:2]
    t = s.T
    r = t[1]
    r[0] = x
    assert eq(m[0, 1], x)
    rr = r[::-1]
    rr[0] = x + 2
    assert eq(m[1, 1], x + 2)
    for row in m.T:
        row[0] = 0.0
    assert eq(m[0, 0], 0.0) and eq(m[0, 1], 0.0) and eq(m[1, 0], c)
    cp = copy.copy(m)
    cp[0, 0] = 1.0
    assert eq(m[0, 0], 0.0)
    m2 = m
    m2 = m2 + 1.0
    assert eq(m[0, 0], 0.0)
    n = -m
    n[0, 0] = 7.0
    assert eq(m[0, 0], 0.0)


@lemma
def len_iter(a: float, b: float):
    m = np.array([[a, b], [b, a], [a, a]])
    assert len(m) == 3
    assert len(m.T) == 2
    rows = [r for r in m]
    assert len(rows) == 3 and rows[0].shape == (2,)
    assert m.size == 6 and m.ndim == 2
    assert m[-1, -2] == a
    ok = False
    try:
        m[3]
    except IndexError:
        ok = True
    assert ok
    ok = False
    try:
        m[0, 0, 0]
    except IndexError:
        ok = True
    assert ok
    s = m[5:7]
    assert s.shape == (0, 2)
    assert m[::2].shape == (2, 2)
    assert m[::-1][0, 1] == a
    assert m[-2:, 1:].shape == (2, 1)


@lemma
def concatenate_forms(a: float, b: float, x: float):
    v = np.array([a, b])
    c = np.concatenate((v, v))
    c[0] = x
    assert eq(v[0], a) and c.shape == (4,)
    ci = np.concatenate(([1, 2], [3]))
    assert ci.dtype == np.dtype("int64")
    cm = np.concatenate(([1, 2], [3.5]))
    assert cm.dtype == np.dtype("float64")


@lemma
def inplace_on_row(a: float, b: float):
    m = np.array([[a, b], [b, a]])
    m[0] += 1.0
    assert eq(m[0, 0], a + 1) and eq(m[1, 0], b)
    m[:, 1] *= 2.0
    assert eq(m[0, 1], 2 * (b + 1)) and eq(m[1, 1], 2 * a)
    v = np.array([a, b])
    v[[0, 0]] += 1.0
    assert eq(v[0], a + 1), "buffered: the repeated index is incremented once"
    w = v
    v = v + 1.0
    assert eq(w[0], a + 1)
    i = np.array([1, 2])
    i[0] += 1
    assert i[0] == 2


@lemma
def array_of_arrays(a: float, b: float, x: float):
    u = np.array([a, b])
    m = np.array([u, u])
    assert m.shape == (2, 2)
    m[0, 0] = x
    assert eq(u[0], a)
    l = [a, b]
    v = np.array(l)
    l[0] = x
    assert eq(v[0], a)
    w = np.asarray(l)
    w[1] = x
    assert eq(l[1], b)
