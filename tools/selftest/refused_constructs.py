"""Constructs of area A (mutation / aliasing / identity of built-in values) that the engine REFUSES: every lemma below is a
true statement about CPython (green natively) and must come out `unsupported` symbolically (lemma undecided) - never
`ok` by a wrong model and never refuted.  It documents the edge of the subset: list += tuple / str, dict |=, list + tuple,
item assignment on a tuple / str, dict.popitem, set.isdisjoint / set ordering / set.pop, list < list, min / max with key,
== on @dataclass instances, == / isinstance on dictionary views, a second pass over an iterator, generators whose items have
effects and are not consumed completely at once (any / all short-circuit, lazy map), a stored generator expression whose
free variables are rebound, a closure over a comprehension variable called later, keys changed (same size) while a
dictionary is iterated, a dictionary that grows inside the comprehension iterating it, symbolic repeat counts ("ab" * n),
str % float.  (reflected ordering `int < obj` and `del name` followed by a read are modelled since the merge of audit-B: those
two lemmas moved to dunder_protocols.py and scoping_and_laziness.py.)

  cp tools/selftest/refused_constructs.py contracts/T00_refused.py
  python3-vt -m pyvc.run contracts/T00_refused.py
  PYTHONPATH=/repo:contracts /venv/bin/python contracts/native_runner.py cross contracts/T00_refused.py --n 20
  rm contracts/T00_refused.py
"""
from dataclasses import dataclass
import copy
import math

from spec import *


class Box:
    pass


class Acc:
    def __init__(self):
        self.log = []
        self.n = 0

    def __iadd__(self, o):
        self.log.append(o)
        return self

    def bump(self):
        self.n += 10
        return 1


class Plain:
    def __init__(self, v):
        self.v = v

    def __add__(self, o):
        return Plain(self.v + o)


class IaddNew:
    def __init__(self, v):
        self.v = v

    def __iadd__(self, o):
        return IaddNew(self.v + o)


def _bumpd(d):
    d["k"] += 10
    return 1


def _bumpl(l):
    l[0] += 10
    return 1


class P:
    def __init__(self, v):
        self.v = v

    def __eq__(self, o):
        return isinstance(o, P) and self.v == o.v

    def __hash__(self):
        return 0


@dataclass
class D:
    x: int
    y: int = 0


def _acc(x, acc=[]):
    acc.append(x)
    return acc


def _accd(k, d={}):
    d[k] = len(d)
    return d


def _none_default(x, acc=None):
    if acc is None:
        acc = []
    acc.append(x)
    return acc


def _note(log, v):
    log.append(v)
    return v


def _grow(d, k):
    d[k + "x"] = 1
    return k


class Counter:
    count = 0
    shared = []

    def bump(self):
        self.count += 1
        self.shared.append(1)


class Prop:
    def __init__(self):
        self._v = 0
        self.sets = 0

    @property
    def v(self):
        return self._v

    @v.setter
    def v(self, x):
        self.sets += 1
        self._v = x


@lemma
def list_iadd_tuple(n: int):
    l = [1, 2, 3]
    m = l
    m += (4, 5)
    assert l is m and l == [1, 2, 3, 4, 5]


@lemma
def dict_ior(n: int):
    d = {"a": 1}
    e = d
    e |= {"b": 2}
    assert d is e and d == {"a": 1, "b": 2}


@lemma
def tuple_item_iadd_list_raises_but_mutates(n: int):
    inner = [1]
    t = (inner, 2)
    raised = False
    try:
        t[0] += [n]
    except TypeError:
        raised = True
    assert raised and inner == [1, n]


@lemma
def list_iadd_string_and_dict(n: int):
    l = [0]
    l += "ab"
    assert l == [0, "a", "b"]
    l += {"k": 1}
    assert l == [0, "a", "b", "k"]


@lemma
def list_plus_tuple_is_type_error(n: int):
    l = [0]
    raised = False
    try:
        m = l + (1,)
    except TypeError:
        raised = True
    assert raised


@lemma
def dataclass_eq_is_by_value(n: int):
    a = D(n, 2)
    b = D(n, 2)
    assert a == b and a is not b
    assert a != D(n, 3)
    assert [a] == [b]


@lemma
def sorted_min_max_ties(n: int):
    a = (1, "x")
    b = (1, "y")
    l = [b, a]
    assert min(l, key=lambda t: t[0]) is b
    assert max(l, key=lambda t: t[0]) is b
    assert min(a, b, key=lambda t: t[0]) is a
    assert max([3, 1, 3.0]) == 3
    assert min([], default=7) == 7
    r = 0
    try:
        max([])
    except ValueError:
        r = 1
    assert r == 1
    assert sorted([3, 1, 2], reverse=True) == [3, 2, 1]
    assert sorted("bca") == ["a", "b", "c"]
    assert sorted({3: "a", 1: "b"}) == [1, 3]


@lemma
def min_max_symbolic_ties_identity(x: float, y: float):
    assert max(x, y) >= x and max(x, y) >= y
    assert min(x, y, 3) <= 3
    assert max([x, y], key=lambda v: -v) == min(x, y)


@lemma
def dict_methods(n: int):
    d = {"a": 1, "b": n}
    assert d.get("a") == 1 and d.get("z") is None and d.get("z", 5) == 5
    r = d.setdefault("a", 100)
    assert r == 1 and d["a"] == 1
    r = d.setdefault("c", 100)
    assert r == 100 and d["c"] == 100
    assert list(d) == ["a", "b", "c"]
    v = d.pop("a")
    assert v == 1 and "a" not in d
    assert d.pop("zz", 9) == 9
    k = 0
    try:
        d.pop("zz")
    except KeyError:
        k = 1
    assert k == 1
    d["a"] = 7
    assert list(d.items()) == [("b", n), ("c", 100), ("a", 7)]
    it = d.popitem()
    assert it == ("a", 7) and len(d) == 2
    d["b"] = 0
    assert list(d) == ["b", "c"], "updating an existing key keeps its position"
    d.update({"c": 1, "x": 2}, y=3)
    assert list(d.items()) == [("b", 0), ("c", 1), ("x", 2), ("y", 3)]
    d.update([("q", 1), ("b", 5)])
    assert d["b"] == 5 and list(d)[-1] == "q"
    del d["c"]
    assert list(d) == ["b", "x", "y", "q"]
    try:
        del d["nope"]
    except KeyError:
        k = 2
    assert k == 2
    e = d.copy()
    e["b"] = 6
    assert d["b"] == 5 and e is not d
    f = dict.fromkeys(["a", "b"], 0)
    assert f == {"a": 0, "b": 0}


@lemma
def dict_popitem_empty_and_clear(n: int):
    d = {"a": 1}
    e = d
    d.clear()
    assert e == {} and len(e) == 0
    r = 0
    try:
        d.popitem()
    except KeyError:
        r = 1
    assert r == 1


@lemma
def closures_bind_late(n: int):
    x = 1
    f = lambda: x
    x = n
    assert f() == n
    fs = [lambda: i for i in range(3)]
    assert [g() for g in fs] == [2, 2, 2]
    hs = [lambda i=i: i for i in range(3)]
    assert [g() for g in hs] == [0, 1, 2]


@lemma
def generator_expression_is_lazy_in_free_variables(n: int):
    k = 1
    g = (v + k for v in [1, 2])
    k = n
    assert list(g) == [1 + n, 2 + n]


@lemma
def generator_expression_first_iterable_is_evaluated_eagerly(n: int):
    l = [1, 2]
    g = (v for v in l)
    l = [7]
    assert list(g) == [1, 2]


@lemma
def generator_is_exhausted_after_one_pass(n: int):
    g = (v for v in [1, n])
    a = list(g)
    b = list(g)
    assert a == [1, n] and b == []
    z = zip([1, 2], [3, 4])
    assert list(z) == [(1, 3), (2, 4)] and list(z) == []
    m = map(lambda v: v + 1, [1, 2])
    assert list(m) == [2, 3] and list(m) == []
    e = enumerate(["a"])
    assert list(e) == [(0, "a")] and list(e) == []
    r = reversed([1, 2])
    assert list(r) == [2, 1] and list(r) == []
    f = filter(None, [0, 1, 2])
    assert list(f) == [1, 2] and list(f) == []
    it = iter([1, 2])
    assert next(it) == 1 and list(it) == [2]


@lemma
def any_all_short_circuit_on_generators(n: int):
    log = []
    r = any(_note(log, v) > 1 for v in [1, 2, 3])
    assert r and log == [1, 2]
    log2 = []
    r2 = all(_note(log2, v) < 1 for v in [1, 2, 3])
    assert not r2 and log2 == [1]
    log3 = []
    r3 = any([_note(log3, v) > 1 for v in [1, 2, 3]])
    assert r3 and log3 == [1, 2, 3]


@lemma
def map_filter_zip_are_lazy(n: int):
    log = []
    m = map(lambda v: _note(log, v), [1, 2, 3])
    assert log == []
    first = next(m)
    assert first == 1 and log == [1]
    log2 = []
    z = zip(map(lambda v: _note(log2, v), [1, 2]), [5])
    assert list(z) == [(1, 5)]
    assert log2 == [1, 2], "zip pulls the first iterator once more before the second one stops"


@lemma
def is_vs_eq(n: int):
    a = [1, n]
    b = [1, n]
    assert a == b and a is not b
    assert not (a != b)
    d1 = {}
    d2 = {}
    assert d1 == d2 and d1 is not d2
    assert [] is not []
    assert None is None
    assert (a is b) == False
    o1 = Box()
    o2 = Box()
    assert o1 != o2 and o1 == o1
    assert [1, 2] != (1, 2) and [1, 2] != [2, 1] and {1, 2} == {2, 1}
    assert {"a": 1, "b": 2} == {"b": 2, "a": 1}
    assert [1, 2] < [1, 3] and [1, 2] < [1, 2, 0] and (1, 2) < (2,) and "ab" < "b"
    assert [n] <= [n]


@lemma
def set_methods(n: int):
    s = {1, 2}
    t = s
    s.add(2)
    s.add(3)
    assert len(t) == 3
    s.discard(9)
    s.discard(1)
    assert sorted(t) == [2, 3]
    r = 0
    try:
        s.remove(9)
    except KeyError:
        r = 1
    assert r == 1
    s.update([4], (5,))
    assert sorted(s) == [2, 3, 4, 5]
    assert s.isdisjoint({7, 8}) and not s.isdisjoint([2])
    assert {1} < {1, 2} and {1} <= {1} and not ({1} < {1}) and {1, 2} > {2} and not ({1} <= {2})
    assert {1, 2} >= {2} and not ({3} > {1})
    assert s.issubset(range(10)) and s.issuperset([2, 3])
    assert s & {2, 9} == {2} and s | {9} == {2, 3, 4, 5, 9} and s - {2} == {3, 4, 5} and s ^ {2, 9} == {3, 4, 5, 9}
    u = s.union([9])
    assert u is not s and 9 not in s
    s.intersection_update({2, 3, 100})
    assert sorted(s) == [2, 3]
    x = s.pop()
    assert x in (2, 3) and len(s) == 1
    e = set()
    try:
        e.pop()
    except KeyError:
        r = 2
    assert r == 2


@lemma
def comprehension_over_dict_that_grows(n: int):
    d = {"a": 1}
    r = 0
    try:
        l = [_grow(d, k) for k in d]
    except RuntimeError:
        r = 1
    assert r == 1


@lemma
def keys_view_is_not_a_list(n: int):
    d = {"a": 1}
    assert not isinstance(d.keys(), list)
    assert d.keys() != ["a"]
    assert list(d.keys()) == ["a"]


@lemma
def same_size_key_change_during_iteration(n: int):
    d = {"a": 1, "b": 2}
    r = 0
    try:
        for k in d:
            if k == "a":
                del d["a"]
                d["a"] = 5
    except RuntimeError:
        r = 1
    assert r == 1


@lemma
def generator_over_list_consumed_after_change(n: int):
    l = [1, 2]
    g = (v for v in l)
    l.append(n)
    assert list(g) == [1, 2, n]
    it = iter(l)
    l.append(7)
    assert list(it) == [1, 2, n, 7]
    z = zip(l, l)
    l.pop()
    assert len(list(z)) == 3


@lemma
def symbolic_repeat_count(n: int):
    assume(0 <= n)
    assume(n <= 2)
    s = "ab" * n
    assert len(s) == 2 * n


@lemma
def list_ordering(n: int):
    assert [1, 2] < [1, 3] and [1, 2] < [1, 2, 0] and not ([2] < [1, 5])
    assert [n] <= [n]


@lemma
def set_ordering(n: int):
    assert {1} < {1, 2} and {1} <= {1} and not ({1} < {1}) and {1, 2} > {2} and not ({1} <= {2})


@lemma
def string_formatting(n: int):
    assert "%d-%s" % (3, "x") == "3-x" and "%5.2f" % 3.14159 == " 3.14" and "%03d" % 7 == "007" and "%s" % "a" == "a" and "%d%%" % 5 == "5%"
    assert "%s" % (1,) == "1" and "%r" % "a" == "'a'" and "%-4d|" % 7 == "7   |" and "%x" % 255 == "ff" and "%e" % 1234.5 == "1.234500e+03"
    assert "{}-{}".format(1, "a") == "1-a" and "{1}{0}".format("a", "b") == "ba" and "{x}".format(x=5) == "5" and "{:>4}".format("ab") == "  ab"
    assert "{:04d}".format(42) == "0042" and "{:.2f}".format(2.5) == "2.50" and "{:8.3e}".format(1234.5) == "1.234e+03" and "{:,}".format(1234567) == "1,234,567"
    assert "{0:d}{0:x}".format(255) == "255ff" and "{!r}".format("a") == "'a'" and "{{}}".format() == "{}"
    x = 3.14159
    k = 42
    assert f"{x:.2f}" == "3.14" and f"{k:05d}" == "00042" and f"{k}" == "42" and f"{k!r:>4}" == "  42" and f"{'a':<3}|" == "a  |" and f"{k:>{4}}" == "  42"
    assert f"{x}" == "3.14159" and f"{1.0}" == "1.0" and f"{1e20}" == "1e+20" and f"{0.1 + 0.2}" != "0.3" if NATIVE else True
    assert str(1.0) == "1.0" and str(2.50) == "2.5" and str(True) == "True" and str(None) == "None" and repr("a") == "'a'" and str(10 ** 20) == "100000000000000000000"
    assert "%s" % 1.5 == "1.5" and "{}".format(1.5) == "1.5" and "{}".format(True) == "True" and "%d" % True == "1" and "%s" % None == "None"
    assert "%d" % 3.9 == "3" and "{:d}".format(3) == "3" and "%5s|" % "ab" == "   ab|" and "%.1f" % 0.25 == "0.2" and "%.0f" % 0.5 == "0" and "%.0f" % 1.5 == "2"
    r = 0
    try:
        "{:d}".format(3.5)
    except ValueError:
        r = 1
    assert r == 1
    try:
        "%d" % "a"
    except TypeError:
        r = 2
    assert r == 2
    try:
        "%d %d" % (1,)
    except TypeError:
        r = 3
    assert r == 3


@lemma
def string_and_tuple_are_immutable(n: int):
    s = "abc"
    r = 0
    try:
        s[0] = "x"
    except TypeError:
        r = 1
    assert r == 1
    t = (1, 2)
    try:
        t[0] = 5
    except TypeError:
        r = 2
    assert r == 2
    try:
        del t[0]
    except TypeError:
        r = 3
    assert r == 3


# ---- added with the merge of audit-B: the edge of the iterator model (an iterator argument is consumed completely, at once)
@lemma
def iterator_shared_with_a_lazy_map(n: int):
    it = iter([1, 2, 3])
    m = map(lambda q: q + n, it)
    assert next(it) == 1, "map has not taken anything yet"
    assert list(m) == [2 + n, 3 + n]


@lemma
def zip_leaves_the_rest_of_a_longer_iterator(n: int):
    a = iter([1, 2, n])
    assert list(zip(a, [0])) == [(1, 0)]
    assert next(a) == n, "zip took two items from a (the second one is lost), not all three"


@lemma
def islice_leaves_the_rest_of_the_iterator(n: int):
    import itertools

    a = iter([1, n, 3])
    assert list(itertools.islice(a, 1)) == [1] and next(a) == n


class _LoggingBag:
    def __init__(self, items):
        self.items = items
        self.log = []

    def __iter__(self):
        for v in self.items:
            self.log.append(v)
            yield v


@lemma
def implicit_generator_with_effects(n: int):
    b = _LoggingBag([n, 2, 3])
    for v in b:
        break
    assert b.log == [n], "the generator behind __iter__ ran only up to its first yield"
