"""Self-test of the engine's model of built-in containers against CPython: list / dict / set / frozenset methods, == and
`in` through user-defined __eq__ (identity first), 1 == 1.0 == True as keys, insertion order of dictionaries, dictionary views
(LIVE, not lists), RuntimeError when a dict / set changes size while it is iterated, values read live through d.items(),
copy.copy vs copy.deepcopy (shared substructure, cycles, tuples of immutables, list subclasses), aliasing idioms ([[0]*2]*2,
dict.fromkeys(keys, []), class-level mutable attributes, swaps, removal while iterating), try/finally order, for/else.
Every lemma states what CPython does (green natively) and is discharged symbolically; statements a plausible WRONG model
would satisfy are asserted negated (`is not`, lengths of the other alias, ...).

  cp tools/selftest/container_semantics.py contracts/T00_cont.py
  python3-vt -m pyvc.run contracts/T00_cont.py
  PYTHONPATH=/repo:contracts /venv/bin/python contracts/native_runner.py cross contracts/T00_cont.py --n 20
  rm contracts/T00_cont.py
"""
from dataclasses import dataclass
import collections
import copy

from spec import *


class P:
    def __init__(self, v):
        self.v = v

    def __eq__(self, o):
        return isinstance(o, P) and self.v == o.v

    def __hash__(self):
        return 0


@dataclass
class D:
    x: int
    y: int = 0


def _grow(d, k):
    d[k + "x"] = 1
    return k


PT = collections.namedtuple("PT", "x y")


class LL(list):
    pass


class Counter:
    count = 0
    shared = []

    def bump(self):
        self.count += 1
        self.shared.append(1)


class Prop:
    def __init__(self):
        self._v = 0
        self.sets = 0

    @property
    def v(self):
        return self._v

    @v.setter
    def v(self, x):
        self.sets += 1
        self._v = x


class Box:
    pass


def _note(log, v):
    log.append(v)
    return v


@lemma
def eq_inside_containers_uses_dunder_eq(n: int):
    assert [P(n)] == [P(n)]
    assert (P(n), 1) == (P(n), 1)
    assert {"a": P(n)} == {"a": P(n)}
    assert not ([P(n)] != [P(n)])


@lemma
def in_tuple_uses_dunder_eq(n: int):
    assert P(n) in (P(n), 3)
    assert P(n) in [P(n)]


@lemma
def list_methods_use_dunder_eq(n: int):
    l = [P(1), P(n)]
    assert l.index(P(1)) == 0
    assert l.count(P(1)) >= 1
    l.remove(P(1))
    assert len(l) == 1


@lemma
def list_basic_methods(n: int, m: int):
    l = [n, m]
    r = l.append(3)
    assert r is None and l == [n, m, 3]
    l.extend((4, 5))
    assert l == [n, m, 3, 4, 5]
    l.insert(1, 9)
    assert l == [n, 9, m, 3, 4, 5]
    l.insert(-1, 8)
    assert l == [n, 9, m, 3, 4, 8, 5]
    l.insert(100, 7)
    assert l[-1] == 7
    l.insert(-100, 6)
    assert l[0] == 6 and len(l) == 9
    x = l.pop()
    assert x == 7 and len(l) == 8
    y = l.pop(0)
    assert y == 6 and l[0] == n
    z = l.pop(-2)
    assert z == 8 and l == [n, 9, m, 3, 4, 5]
    l.reverse()
    assert l == [5, 4, 3, m, 9, n]
    c = l.copy()
    assert c == l and c is not l
    c.clear()
    assert c == [] and len(l) == 6


@lemma
def list_pop_errors(n: int):
    l = []
    r = 0
    try:
        l.pop()
    except IndexError:
        r = 1
    assert r == 1
    l = [1]
    try:
        l.pop(1)
    except IndexError:
        r = 2
    assert r == 2
    try:
        l.remove(5)
    except ValueError:
        r = 3
    assert r == 3
    try:
        l.index(5)
    except ValueError:
        r = 4
    assert r == 4


@lemma
def list_index_count_remove(n: int):
    l = [3, 1, 3, 2, 1.0, True]
    assert l.index(3) == 0
    assert l.index(1) == 1
    assert l.count(1) == 3
    assert l.index(3, 1) == 2
    l.remove(1)
    assert l == [3, 3, 2, 1.0, True]
    l.remove(True)
    assert l == [3, 3, 2, True]
    assert l[3] is True


@lemma
def list_remove_symbolic(n: int):
    l = [1, n, 1]
    l.remove(n)
    # removes the FIRST element equal to n
    assert implies(n == 1, l == [n, 1]) and implies(n != 1, l == [1, 1])
    assert len(l) == 2


@lemma
def list_index_symbolic(n: int):
    l = [1, n, 5]
    i = l.index(5)
    assert implies(n == 5, i == 1) and implies(n != 5, i == 2)
    c = l.count(n)
    assert c >= 1 and implies(n == 1, c == 2)


@lemma
def list_sort_is_in_place_and_stable(n: int):
    l = [(2, "a"), (1, "b"), (2, "c"), (1, "d")]
    m = l
    r = l.sort(key=lambda t: t[0])
    assert r is None and m is l
    assert l == [(1, "b"), (1, "d"), (2, "a"), (2, "c")]
    l.sort(key=lambda t: t[0], reverse=True)
    # reverse keeps the original order of equal elements
    assert l == [(2, "a"), (2, "c"), (1, "b"), (1, "d")]
    s = sorted(l, key=lambda t: t[1], reverse=True)
    assert s == [(1, "d"), (2, "c"), (1, "b"), (2, "a")] and s is not l


@lemma
def mixed_key_equality_in_dicts(n: int):
    d = {1: "a"}
    d[1.0] = "b"
    d[True] = "c"
    assert len(d) == 1 and d[1] == "c" and list(d.keys()) == [1]
    assert type(list(d)[0]) is int
    s = {1, 1.0, True}
    assert len(s) == 1
    assert 1.0 in d and True in s
    e = {0: "z", False: "f", 0.0: "g"}
    assert len(e) == 1 and e[0] == "g"
    assert (1, 2) == (1.0, 2) and {(1, 2): 1}[(1.0, 2.0)] == 1


@lemma
def dict_views_are_live(n: int):
    d = {"a": 1}
    ks = d.keys()
    vs = d.values()
    its = d.items()
    d["b"] = n
    assert len(ks) == 2 and "b" in ks
    assert list(vs) == [1, n]
    assert ("b", n) in its and len(its) == 2
    assert list(ks) == ["a", "b"]


@lemma
def dict_changed_size_during_iteration(n: int):
    d = {"a": 1, "b": 2}
    r = 0
    try:
        for k in d:
            d[k + "x"] = 1
    except RuntimeError:
        r = 1
    assert r == 1


@lemma
def dict_value_update_during_iteration_is_fine(n: int):
    d = {"a": 1, "b": 2}
    for k in d:
        d[k] = d[k] + n
    assert d == {"a": 1 + n, "b": 2 + n}


@lemma
def set_changed_size_during_iteration(n: int):
    s = {1, 2}
    r = 0
    try:
        for k in s:
            s.add(k + 10)
    except RuntimeError:
        r = 1
    assert r == 1


@lemma
def items_view_values_are_read_live(n: int):
    d = {"a": 1, "b": 2}
    out = []
    for k, v in d.items():
        out.append(v)
        d["b"] = n
    assert out == [1, n]
    vs = d.values()
    d["a"] = 5
    assert list(vs) == [5, n]
    assert len(d.keys()) == 2 and "a" in d.keys() and ("a", 5) in d.items() and 5 in d.values()
    assert sorted(d.items()) == [("a", 5), ("b", n)]
    assert bool(d.keys()) and not {}.keys()


@lemma
def deepcopy_of_tuples(n: int):
    ti = (1, 2)
    assert copy.copy(ti) is ti and copy.deepcopy(ti) is ti
    inner = [n]
    t = (inner, 1)
    tt = copy.deepcopy(t)
    assert tt is not t and tt[0] is not inner and tt[0] == inner and tt[1] == 1


@lemma
def copy_of_list_subclass_has_its_own_items(n: int):
    a = LL()
    a.append(n)
    b = copy.copy(a)
    b.append(2)
    assert len(a) == 1 and len(b) == 2 and b[0] == n


@lemma
def list_repetition_shares_inner_lists(n: int):
    g = [[0] * 2] * 2
    g[0][0] = n
    assert g[1][0] == n and g[0] is g[1]
    h = [[0] * 2 for _ in range(2)]
    h[0][0] = n
    assert h[1][0] == 0 and h[0] is not h[1]
    d = dict.fromkeys(["a", "b"], [])
    d["a"].append(n)
    assert d["b"] == [n]
    e = {}
    e.setdefault("k", []).append(n)
    e.setdefault("k", []).append(2)
    assert e == {"k": [n, 2]}
    t = ([], 1)
    t[0].append(n)
    assert t == ([n], 1)


@lemma
def swaps_and_enumerate_updates(n: int, m: int):
    l = [n, m, 3]
    l[0], l[1] = l[1], l[0]
    assert l == [m, n, 3]
    for i, x in enumerate(l):
        l[i] = x + 1
    assert l == [m + 1, n + 1, 4]
    k = [1, 2, 3, 4]
    for x in k[:]:
        if x % 2 == 0:
            k.remove(x)
    assert k == [1, 3]
    j = [1, 2, 3, 4]
    for x in j:
        if x % 2 == 0:
            j.remove(x)
    assert j == [1, 3]
    q = [1, 2, 2, 3]
    for x in q:
        if x == 2:
            q.remove(x)
    assert q == [1, 2, 3], "removing while iterating skips the element after the removed one"
    w = [1, 2, 3]
    out = []
    while w:
        out.append(w.pop())
    assert out == [3, 2, 1] and w == []


@lemma
def class_attribute_augmented_through_instance(n: int):
    a = Counter()
    b = Counter()
    a.bump()
    assert a.count == 1 and b.count == 0 and Counter.count == 0
    assert b.shared == [1] and Counter.shared is a.shared
    a.shared.pop()


@lemma
def property_augmented_assignment_calls_getter_and_setter(n: int):
    p = Prop()
    p.v = n
    p.v += 2
    assert p.v == n + 2 and p.sets == 2 and p._v == n + 2


@lemma
def try_finally_and_else_order(n: int):
    log = []
    try:
        log.append(1)
        x = 1 // (n - n)
        log.append(2)
    except ZeroDivisionError:
        log.append(3)
    else:
        log.append(4)
    finally:
        log.append(5)
    assert log == [1, 3, 5]

    def f():
        try:
            return 1
        finally:
            log.append(6)

    assert f() == 1 and log[-1] == 6

    def g():
        for i in range(3):
            try:
                if i == 1:
                    continue
                if i == 2:
                    break
            finally:
                log.append(10 + i)
        return 0

    g()
    assert log[-3:] == [10, 11, 12]


@lemma
def for_else_and_loop_variable_after_loop(n: int):
    for i in range(3):
        pass
    else:
        i = i + 10
    assert i == 12
    for j in []:
        pass
    else:
        j = -1
    assert j == -1
    k = 0
    for k in range(5):
        if k == 2:
            break
    else:
        k = 99
    assert k == 2
    it = [1, 2, 3]
    tot = 0
    for v in it:
        tot += v
        if v == 1:
            it.append(10)
    assert tot == 16


@lemma
def nested_function_mutates_enclosing_list_and_default_binding(n: int):
    acc = []

    def add(v, scale=n):
        acc.append(v * scale)
        return len(acc)

    assert add(1) == 1 and add(2, scale=1) == 2 and acc == [n, 2]
    fs = []
    for i in range(3):
        fs.append(lambda: i)
    assert [f() for f in fs] == [2, 2, 2]
    gs = []
    for i in range(3):
        gs.append(lambda i=i: i)
    assert [g() for g in gs] == [0, 1, 2]


@lemma
def dict_iteration_order_and_deletion(n: int):
    d = {}
    d["b"] = 1
    d["a"] = 2
    d["c"] = 3
    del d["a"]
    d["a"] = 4
    assert list(d) == ["b", "c", "a"] and list(d.values()) == [1, 3, 4]
    assert ("b" in d) and ("z" not in d) and (1 not in d)
    e = {1: "x", 2: "y"}
    assert {v: k for k, v in e.items()} == {"x": 1, "y": 2}
    assert list(reversed(list(d))) == ["a", "c", "b"]
    m = {**d, "b": 0}
    assert list(m.items()) == [("b", 0), ("c", 3), ("a", 4)]
    assert {"a": 1} | {"b": 2} == {"a": 1, "b": 2} if NATIVE else True
    assert len({(1, 2): "t", (1.0, 2): "u"}) == 1


@lemma
def dict_methods_without_popitem(n: int):
    d = {"a": 1, "b": n}
    assert d.get("a") == 1 and d.get("z") is None and d.get("z", 5) == 5
    r = d.setdefault("a", 100)
    assert r == 1 and d["a"] == 1
    r = d.setdefault("c", 100)
    assert r == 100 and d["c"] == 100
    assert list(d) == ["a", "b", "c"]
    v = d.pop("a")
    assert v == 1 and "a" not in d
    assert d.pop("zz", 9) == 9
    k = 0
    try:
        d.pop("zz")
    except KeyError:
        k = 1
    assert k == 1
    d["a"] = 7
    assert list(d.items()) == [("b", n), ("c", 100), ("a", 7)]
    d["b"] = 0
    assert list(d) == ["b", "c", "a"], "updating an existing key keeps its position"
    d.update({"c": 1, "x": 2}, y=3)
    assert list(d.items()) == [("b", 0), ("c", 1), ("a", 7), ("x", 2), ("y", 3)]
    d.update([("q", 1), ("b", 5)])
    assert d["b"] == 5 and list(d)[-1] == "q"
    del d["c"]
    assert list(d) == ["b", "a", "x", "y", "q"]
    try:
        del d["nope"]
    except KeyError:
        k = 2
    assert k == 2
    e = d.copy()
    e["b"] = 6
    assert d["b"] == 5 and e is not d
    f = dict.fromkeys(["a", "b"], 0)
    assert f == {"a": 0, "b": 0}
    g = d
    d.clear()
    assert g == {} and len(g) == 0


@lemma
def set_methods_basic(n: int):
    s = {1, 2}
    t = s
    s.add(2)
    s.add(3)
    assert len(t) == 3
    s.discard(9)
    s.discard(1)
    assert sorted(t) == [2, 3]
    r = 0
    try:
        s.remove(9)
    except KeyError:
        r = 1
    assert r == 1
    s.update([4], (5,))
    assert sorted(s) == [2, 3, 4, 5]
    assert s.issubset(range(10))
    assert s & {2, 9} == {2} and s | {9} == {2, 3, 4, 5, 9} and s - {2} == {3, 4, 5} and s ^ {2, 9} == {3, 4, 5, 9}
    u = s.union([9])
    assert u is not s and 9 not in s and 9 in u
    w = s.copy()
    w.add(100)
    assert 100 not in s
    fs = frozenset(s)
    assert isinstance(fs, frozenset) and not isinstance(fs, set) and not isinstance(s, frozenset) and fs == s
    g = fs
    g |= {7}
    assert 7 not in fs and 7 in g and isinstance(g, frozenset)


@lemma
def identity_and_equality(n: int):
    a = [1, n]
    b = [1, n]
    assert a == b and a is not b
    assert not (a != b)
    d1 = {}
    d2 = {}
    assert d1 == d2 and d1 is not d2
    assert [] is not []
    assert None is None
    assert (a is b) == False
    o1 = Box()
    o2 = Box()
    assert o1 != o2 and o1 == o1
    assert [1, 2] != (1, 2) and [1, 2] != [2, 1] and {1, 2} == {2, 1}
    assert {"a": 1, "b": 2} == {"b": 2, "a": 1}
    assert (1, 2) < (2,) and "ab" < "b"


@lemma
def sorted_and_min_max_without_key(n: int):
    assert max([3, 1, 3.0]) == 3
    assert min([], default=7) == 7
    r = 0
    try:
        max([])
    except ValueError:
        r = 1
    assert r == 1
    assert sorted([3, 1, 2], reverse=True) == [3, 2, 1]
    assert sorted("bca") == ["a", "b", "c"]
    assert sorted({3: "a", 1: "b"}) == [1, 3]
    l = [3, 1]
    s = sorted(l)
    assert s is not l and l == [3, 1]


@lemma
def pure_generators_and_single_pass_consumers(n: int):
    assert any(v > 1 for v in [1, n, 3]) and not all(v > 1 for v in [1, n, 3])
    assert list(zip([1, 2], [3, 4])) == [(1, 3), (2, 4)]
    assert list(map(lambda v: v + 1, [1, n])) == [2, n + 1]
    assert list(filter(None, [0, 1, 2])) == [1, 2]
    assert [v for v in reversed([1, 2])] == [2, 1]
    it = iter([1, 2])
    assert next(it) == 1 and list(it) == [2]
    assert next(iter([]), 5) == 5
    g = (v * 2 for v in [1, n])
    assert sum(g) == 2 + 2 * n
    log = []
    r3 = any([_note(log, v) > 1 for v in [1, 2, 3]])
    assert r3 and log == [1, 2, 3]
    z = zip([1], [2])
    assert z and bool(iter([])), "iterator objects are always true"
    tot = 0
    for a, b in zip([1, 2], [10, n]):
        tot += a * b
    assert tot == 10 + 2 * n
    log2 = []
    assert sum(_note(log2, v) for v in [1, 2]) == 3 and log2 == [1, 2], "effects are fine when consumed completely at once"
    assert list(map(lambda v: _note(log2, v), [5])) == [5] and log2 == [1, 2, 5]


@lemma
def copy_vs_deepcopy_structures(n: int):
    inner = [n]
    outer = [inner, inner]
    c = copy.copy(outer)
    assert c is not outer and c[0] is inner and c == outer
    d = copy.deepcopy(outer)
    assert d is not outer and d[0] is not inner and d[0] == inner
    assert d[0] is d[1], "deepcopy preserves shared substructure"
    d[0].append(1)
    assert inner == [n] and d[1] == [n, 1]
    cyc = [1]
    cyc.append(cyc)
    e = copy.deepcopy(cyc)
    assert e[1] is e and e is not cyc
    dd = {"k": inner}
    ee = copy.copy(dd)
    assert ee["k"] is inner and ee is not dd
    b = new(Box, a=inner)
    bc = copy.copy(b)
    assert bc is not b and bc.a is inner
    bd = copy.deepcopy(b)
    assert bd.a is not inner and bd.a == inner
    s = {1, 2}
    sc = copy.copy(s)
    sc.add(3)
    assert len(s) == 2
    assert list(outer)[0] is inner and outer[:] is not outer and outer[:][0] is inner
