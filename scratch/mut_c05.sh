#!/bin/sh
# usage: mut_c05.sh id file sed lemmas...
id=$1; shift
f=$1; shift
e=$1; shift
cd /tmp/vw_P
tools/mutant.sh "$f" "$e" C05 "$@" > scratch/mut_$id.txt 2>&1
echo "exit $?" >> scratch/mut_$id.txt
