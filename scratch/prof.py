import cProfile, pstats, sys
from pyvc import run
pr = cProfile.Profile()
pr.enable()
r = run.run_lemma("contracts/C05_flags.py", sys.argv[1])
pr.disable()
print(r["status"], r.get("error"), r["wall_s"])
pstats.Stats(pr).sort_stats("tottime").print_stats(18)
