import sys, time, collections
from pyvc import run, symex
tot = collections.Counter(); cnt = collections.Counter()
orig = symex.Interp.call_func
def wrapped(self, f, args, kwargs, st, node=None):
    t0 = time.time()
    try:
        for x in orig(self, f, args, kwargs, st, node):
            yield x
    finally:
        tot[f.name] += time.time() - t0; cnt[f.name] += 1
symex.Interp.call_func = wrapped
r = run.run_lemma("contracts/C05_flags.py", sys.argv[1])
print(r["status"], r.get("error"), r["wall_s"])
for k, v in tot.most_common(16): print("%8.2f %7d %s" % (v, cnt[k], k))
