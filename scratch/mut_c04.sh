#!/bin/sh
id=$1; shift
f=$1; shift
e=$1; shift
cd /tmp/vw_P
tools/mutant.sh "$f" "$e" C04 "$@" > scratch/mut4_$id.txt 2>&1
echo "exit $?" >> scratch/mut4_$id.txt
