#!/bin/sh
# usage: mut.sh <label> <file> <sed> <prop> [lemmas...]
label=$1; shift
echo "=== $label"
/tmp/vw_G/tools/mutant.sh "$@" 2>&1 | grep -v "^---\|Traceback\|File \"\|sys.exit\|\^\^\^\|BrokenPipe\|print(\"    %s" | awk '/REFUTED/{r++; if(r<=2)print; next} {print} END{if(r>2)print "   (+"r-2" more REFUTED)"}' | cut -c1-220
