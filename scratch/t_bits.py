from spec import *

@lemma(gen={"x": (-300, 300)})
def bits(x: int):
    assert (x & 16) == ((x // 16) % 2) * 16
    assert (x & ~16) + (x & 16) == x
    assert (x | 16) & 16 == 16
    assert (x ^ 16) ^ 16 == x
    assert ~x == -x - 1
    assert (x & 29) & ~16 == x & 13
    y = x
    y &= ~16
    assert y & 16 == 0
    assert (y | 16) - 16 == y
