#!/bin/sh
# Nothing to build: pyvc runs under python3-vt (z3-solver, cvc5 wheels pre-installed); native replay and the
# bounded tier run under /venv/bin/python with armi imported from /repo's working tree.
set -e
cd "$(dirname "$0")"
python3-vt -c "import z3; assert z3.get_version_string().startswith('5')"
/venv/bin/python -c "import numpy, h5py"
mkdir -p evidence replay
echo setup ok
